(* C09: the server session model follows the request / stream state machine. *)
From Coq Require Import String ZArith Lia ZifyN ZifyBool ZifyNat.
From RML Require Import Model.Base Model.Time Model.Amf0 Model.Chunk Model.ChunkSer Model.ChunkDe Model.Messages Model.Float
  Model.SessionCommon Model.Server Proofs.ChunkSpecProofs.
Local Open Scope list_scope.
Local Open Scope N_scope.

(* the part of the session that the protocol state machine is about *)
Definition same_core (s s' : server) : Prop :=
  sv_app s' = sv_app s /\ sv_reqs s' = sv_reqs s /\ sv_next_req s' = sv_next_req s /\ sv_connected s' = sv_connected s /\
  sv_streams s' = sv_streams s /\ sv_next_stream s' = sv_next_stream s /\ sv_objenc s' = sv_objenc s /\ sv_fms s' = sv_fms s.

Lemma same_core_refl s : same_core s s.
Proof. repeat split. Qed.

(* one_packet: either exactly one packet carrying the message (and only the serializer moves) or an error *)
Lemma one_packet_spec s m ts sid force drop s' r :
  one_packet s m ts sid force drop = (s', r) ->
  same_core s s' /\ sv_de s' = sv_de s /\ sv_ack s' = sv_ack s /\
  ((exists b ser', send_message (sv_ser s) m ts sid force drop = Ok (b, ser') /\ r = ROk [SPacket b drop] /\ sv_ser s' = ser') \/
   (exists e, r = RErr (SWire e) /\ s' = s) \/ (r = RPanic /\ s' = s)).
Proof.
  unfold one_packet, sending. destruct (send_message (sv_ser s) m ts sid force drop) as [[b ser']|e|p|] eqn:E; intros H; inversion H; subst.
  - split; [repeat split|]. split; [reflexivity|]. split; [reflexivity|]. left. exists b, ser'. repeat split.
  - split; [apply same_core_refl|]. split; [reflexivity|]. split; [reflexivity|]. right. left. exists e. split; reflexivity.
  - split; [apply same_core_refl|]. split; [reflexivity|]. split; [reflexivity|]. right. right. split; reflexivity.
  - split; [apply same_core_refl|]. split; [reflexivity|]. split; [reflexivity|]. right. right. split; reflexivity.
Qed.

Lemma one_packet_ok s m ts sid force drop s' rs :
  one_packet s m ts sid force drop = (s', ROk rs) -> exists b, rs = [SPacket b drop].
Proof.
  unfold one_packet, sending. destruct (send_message (sv_ser s) m ts sid force drop) as [[b ser']|e|p|]; intros H; inversion H; subst.
  exists b. reflexivity.
Qed.

(* ---------------------------------------------------------------- invariant of every reachable state *)
Definition keys_below {A} (m : list (N * A)) (n : N) : Prop := forall k v, lookup k m = Some v -> k < n.

Definition Inv (s : server) : Prop :=
  keys_below (sv_reqs s) (sv_next_req s) /\ keys_below (sv_streams s) (sv_next_stream s) /\
  (sv_connected s = true -> exists app, sv_app s = Some app).

Lemma keys_below_insert {A} (m : list (N * A)) n k v : keys_below m n -> k < n + 1 -> keys_below (insert k v m) (n + 1).
Proof.
  intros H Hk k' v' Hl. destruct (N.eq_dec k' k) as [->|Hne]; [exact Hk|].
  rewrite lookup_insert_other in Hl by exact Hne. specialize (H _ _ Hl). lia.
Qed.

Lemma keys_below_insert_same {A} (m : list (N * A)) n k v : keys_below m n -> k < n -> keys_below (insert k v m) n.
Proof.
  intros H Hk k' v' Hl. destruct (N.eq_dec k' k) as [->|Hne]; [exact Hk|].
  rewrite lookup_insert_other in Hl by exact Hne. exact (H _ _ Hl).
Qed.

Lemma keys_below_remove {A} (m : list (N * A)) n k : keys_below m n -> keys_below (remove k m) n.
Proof.
  intros H k' v' Hl. destruct (N.eq_dec k' k) as [->|Hne]; [rewrite lookup_remove_same in Hl; discriminate|].
  rewrite lookup_remove_other in Hl by exact Hne. exact (H _ _ Hl).
Qed.

(* fresh request ids: the id handed out is the counter, it was never used, and the counter moves on *)
Lemma new_request_fresh s r s' n :
  Inv s -> new_request s r = (s', n) ->
  n = sv_next_req s /\ lookup n (sv_reqs s) = None /\ lookup n (sv_reqs s') = Some r /\ sv_next_req s' = n + 1 /\ Inv s'.
Proof.
  intros [I1 [I2 I3]] H. unfold new_request in H. inversion H; subst. cbn.
  split; [reflexivity|]. split.
  - destruct (lookup (sv_next_req s) (sv_reqs s)) eqn:E; [|reflexivity]. specialize (I1 _ _ E). lia.
  - split; [apply lookup_insert_same|]. split; [reflexivity|].
    split; [|split]; cbn; [apply keys_below_insert; [exact I1|lia]|exact I2|exact I3].
Qed.

(* ---------------------------------------------------------------- publish / play are gated on an accepted connection *)
Definition is_request_event (r : sresult) : bool :=
  match r with SEvent (EvPublishRequested _ _ _ _) | SEvent (EvPlayRequested _ _ _ _ _ _ _) => true | _ => false end.

Lemma h_publish_gate s sid tr args clock s' rs :
  h_publish s sid tr args clock = (s', ROk rs) -> existsb is_request_event rs = true ->
  sv_connected s = true /\ exists app key mode, sv_app s = Some app /\
    rs = [SEvent (EvPublishRequested (sv_next_req s) app key mode)] /\
    lookup (sv_next_req s) (sv_reqs s') = Some (RPublish key mode sid).
Proof.
  unfold h_publish. intros H Hev.
  assert (Hbad : forall m s1 rs1, one_packet s m clock sid false false = (s1, ROk rs1) -> existsb is_request_event rs1 = true -> False).
  { intros m s1 rs1 H1 H2. destruct (one_packet_ok _ _ _ _ _ _ _ _ H1) as [b Hb]. subst rs1. cbn in H2. discriminate. }
  destruct args as [|a0 [|a1 rest]]; try (exfalso; eapply Hbad; eauto; fail).
  destruct (sv_connected s) eqn:Ec; cbn [negb] in H; [|exfalso; eapply Hbad; eauto].
  destruct (sv_app s) as [app|] eqn:Ea; [|exfalso; eapply Hbad; eauto].
  destruct a0; try (exfalso; eapply Hbad; eauto; fail).
  destruct a1; try (exfalso; eapply Hbad; eauto; fail).
  destruct (mode_of s1) as [mode|] eqn:Em; [|exfalso; eapply Hbad; eauto].
  unfold new_request in H. inversion H; subst. split; [reflexivity|]. exists app, s0, mode.
  split; [reflexivity|]. split; [reflexivity|]. cbn. apply lookup_insert_same.
Qed.

Lemma h_play_gate s sid tr args clock s' rs :
  h_play s sid tr args clock = (s', ROk rs) -> existsb is_request_event rs = true ->
  sv_connected s = true /\ exists app key, sv_app s = Some app /\
    lookup (sv_next_req s) (sv_reqs s') = Some (RPlay key sid) /\
    exists start dur reset, rs = [SEvent (EvPlayRequested (sv_next_req s) app key start dur reset sid)].
Proof.
  unfold h_play. intros H Hev.
  assert (Hbad : forall m s1 rs1, one_packet s m clock sid false false = (s1, ROk rs1) -> existsb is_request_event rs1 = true -> False).
  { intros m s1 rs1 H1 H2. destruct (one_packet_ok _ _ _ _ _ _ _ _ H1) as [b Hb]. subst rs1. cbn in H2. discriminate. }
  destruct args as [|a0 rest]; [exfalso; eapply Hbad; eauto|].
  destruct (sv_connected s) eqn:Ec; cbn [negb] in H; [|exfalso; eapply Hbad; eauto].
  destruct (sv_app s) as [app|] eqn:Ea; [|exfalso; eapply Hbad; eauto].
  destruct a0; try (exfalso; eapply Hbad; eauto; fail).
  unfold new_request in H. inversion H; subst. split; [reflexivity|]. exists app, s0.
  split; [reflexivity|]. split; [cbn; apply lookup_insert_same|]. eexists. eexists. eexists. reflexivity.
Qed.

(* without an accepted connection the reply to publish / play is a single packet (the _error command) *)
Lemma h_publish_not_connected s sid tr args clock s' r :
  sv_connected s = false -> h_publish s sid tr args clock = (s', r) ->
  exists m, one_packet s m clock sid false false = (s', r) /\
            match m with MAmf0Command name _ _ _ => name = str "_error" | _ => False end.
Proof.
  intros Hc H. unfold h_publish in H. rewrite Hc in H. cbn [negb] in H.
  destruct args as [|a0 [|a1 rest]]; eexists; (split; [exact H|reflexivity]).
Qed.

Lemma h_play_not_connected s sid tr args clock s' r :
  sv_connected s = false -> h_play s sid tr args clock = (s', r) ->
  exists m, one_packet s m clock sid false false = (s', r) /\
            match m with MAmf0Command name _ _ _ => name = str "_error" | _ => False end.
Proof.
  intros Hc H. unfold h_play in H. rewrite Hc in H. cbn [negb] in H.
  destruct args as [|a0 rest]; eexists; (split; [exact H|reflexivity]).
Qed.

(* ---------------------------------------------------------------- accept / reject exactly once *)
Lemma accept_unknown_id s id clock : lookup id (sv_reqs s) = None -> server_accept s id clock = (s, RErr SInvalidRequestId).
Proof. intros H. unfold server_accept. rewrite H. reflexivity. Qed.

Lemma reject_unknown_id s id code d clock : lookup id (sv_reqs s) = None -> server_reject s id code d clock = (s, RErr SInvalidRequestId).
Proof. intros H. unfold server_reject. rewrite H. reflexivity. Qed.

Lemma sending_reqs s m ts sid force drop k s' r :
  (forall s1 b s2 r2, k s1 b = (s2, r2) -> sv_reqs s2 = sv_reqs s1) ->
  sending s m ts sid force drop k = (s', r) -> sv_reqs s' = sv_reqs s.
Proof.
  intros Hk H. unfold sending in H. destruct (send_message (sv_ser s) m ts sid force drop) as [[b ser']|e|p|]; try (inversion H; reflexivity).
  rewrite (Hk _ _ _ _ H). reflexivity.
Qed.

Lemma accept_removes s id clock s' r req :
  lookup id (sv_reqs s) = Some req -> server_accept s id clock = (s', r) -> lookup id (sv_reqs s') = None.
Proof.
  intros Hl H. unfold server_accept in H. rewrite Hl in H.
  assert (G : sv_reqs s' = remove id (sv_reqs s)).
  { destruct req as [app tr|key mode sid|key sid].
    - unfold accept_connection in H. destruct (one_packet_spec _ _ _ _ _ _ _ _ H) as [[_ [Hr _]] _]. rewrite Hr. reflexivity.
    - unfold accept_publish in H. cbn [sv_streams upd_reqs] in H. destruct (lookup sid (sv_streams s)); [|inversion H; reflexivity].
      apply sending_reqs in H; [rewrite H; reflexivity|]. intros s1 b s2 r2 H2.
      apply sending_reqs in H2; [exact H2|]. intros s3 b3 s4 r4 H4. inversion H4; reflexivity.
    - unfold accept_play in H. cbn [sv_streams upd_reqs] in H. destruct (lookup sid (sv_streams s)); [|inversion H; reflexivity].
      apply sending_reqs in H; [rewrite H; reflexivity|]. intros s1 b1 s2 r2 H2.
      apply sending_reqs in H2; [exact H2|]. intros s3 b3 s4 r4 H4.
      apply sending_reqs in H4; [exact H4|]. intros s5 b5 s6 r6 H6.
      apply sending_reqs in H6; [exact H6|]. intros s7 b7 s8 r8 H8.
      apply sending_reqs in H8; [exact H8|]. intros s9 b9 s10 r10 H10. inversion H10; reflexivity. }
  rewrite G. apply lookup_remove_same.
Qed.

Lemma reject_removes s id code d clock s' r req :
  lookup id (sv_reqs s) = Some req -> server_reject s id code d clock = (s', r) -> lookup id (sv_reqs s') = None.
Proof.
  intros Hl H. unfold server_reject in H. rewrite Hl in H.
  destruct (match req with RConnection _ tr => (tr, 0) | RPublish _ _ sid => (0, sid) | RPlay _ sid => (0, sid) end) as [tr sid].
  destruct (one_packet_spec _ _ _ _ _ _ _ _ H) as [[_ [Hr _]] _]. rewrite Hr. cbn. apply lookup_remove_same.
Qed.

(* ---------------------------------------------------------------- createStream: fresh id, caller's transaction id *)
Lemma create_stream_fresh s tr clock s' r :
  Inv s -> h_create_stream s tr clock = (s', r) ->
  lookup (sv_next_stream s) (sv_streams s) = None /\
  sv_next_stream s' = sv_next_stream s + 1 /\ lookup (sv_next_stream s) (sv_streams s') = Some StCreated /\
  (forall rs, r = ROk rs -> exists b ser',
      send_message (sv_ser s) (MAmf0Command (str "_result") tr VNull [VNumber (u32_to_f64 (sv_next_stream s))]) clock 0 false false = Ok (b, ser') /\
      rs = [SPacket b false]).
Proof.
  intros [_ [I2 _]] H. unfold h_create_stream in H.
  destruct (one_packet_spec _ _ _ _ _ _ _ _ H) as [[_ [_ [_ [_ [Hs [Hn _]]]]]] [_ [_ Hcases]]]. cbn in Hs, Hn.
  split.
  - destruct (lookup (sv_next_stream s) (sv_streams s)) eqn:E; [|reflexivity]. specialize (I2 _ _ E). lia.
  - split; [exact Hn|]. split; [rewrite Hs; apply lookup_insert_same|].
    intros rs Hr. subst r. destruct Hcases as [[b [ser' [Hsend [Hr _]]]]|[[e [Hr _]]|[Hr _]]]; try discriminate.
    inversion Hr; subst. exists b, ser'. split; [exact Hsend|reflexivity].
Qed.

(* ---------------------------------------------------------------- media events exactly on a publishing stream *)
Lemma media_gate audio s data sid ts :
  h_media audio s data sid ts =
  (s, ROk (if sv_connected s
           then match publishing_key s sid with
                | Some (app, key) => [SEvent (if audio then EvAudio app key data ts else EvVideo app key data ts)]
                | None => []
                end
           else [])).
Proof. unfold h_media. destruct (sv_connected s); cbn [negb]; [|reflexivity]. destruct (publishing_key s sid) as [[app key]|]; reflexivity. Qed.

Lemma publishing_key_spec s sid app key :
  publishing_key s sid = Some (app, key) <-> sv_app s = Some app /\ exists mode, lookup sid (sv_streams s) = Some (StPublishing key mode).
Proof.
  unfold publishing_key. destruct (sv_app s) as [a|]; [|split; [discriminate|intros [H _]; discriminate]].
  destruct (lookup sid (sv_streams s)) as [[|k m|k|]|]; split; intros H; try discriminate;
    try (destruct H as [_ [mode H]]; discriminate).
  - inversion H; subst. split; [reflexivity|]. exists m. reflexivity.
  - destruct H as [Ha [mode Hm]]. inversion Ha; inversion Hm; subst. reflexivity.
Qed.

(* ---------------------------------------------------------------- close / delete: one finished event, then none *)
Lemma close_or_delete_spec delete s args :
  sv_connected s = true -> forall app x, sv_app s = Some app -> args = VNumber x :: tl args ->
  let sid := f64_to_u32 x in
  match lookup sid (sv_streams s) with
  | None => h_close_or_delete delete s args = (s, ROk [])
  | Some st =>
    exists s', h_close_or_delete delete s args = (s', ROk (finished_event app st)) /\
      (if delete then lookup sid (sv_streams s') = None else lookup sid (sv_streams s') = Some StCreated) /\
      (forall k, k <> sid -> lookup k (sv_streams s') = lookup k (sv_streams s)) /\ sv_reqs s' = sv_reqs s
  end.
Proof.
  intros Hc app x Ha Hargs sid. unfold h_close_or_delete. rewrite Hc, Ha. cbn [negb]. rewrite Hargs. fold sid.
  destruct (lookup sid (sv_streams s)) as [st|]; [|reflexivity].
  eexists. split; [reflexivity|]. cbn. destruct delete.
  - split; [apply lookup_remove_same|]. split; [intros k Hk; apply lookup_remove_other; exact Hk|reflexivity].
  - split; [apply lookup_insert_same|]. split; [intros k Hk; apply lookup_insert_other; exact Hk|reflexivity].
Qed.

Lemma finished_event_once app st : (length (finished_event app st) <= 1)%nat /\ finished_event app StCreated = [].
Proof. destruct st; cbn; split; try reflexivity; lia. Qed.

(* ---------------------------------------------------------------- every ping request is echoed *)
Lemma ping_echo s p clock ts :
  of_payload (m_tid p) (m_data p) = Ok (MUserControl PingRequest None None (Some ts)) ->
  h_message s p clock = one_packet s (MUserControl PingResponse None None (Some ts)) clock 0 false false.
Proof. intros H. unfold h_message. rewrite H. reflexivity. Qed.

(* ---------------------------------------------------------------- the invariant holds in every reachable state *)
Inductive sop :=
| OpInput (input : bytes) (clock : N)
| OpAccept (id clock : N)
| OpReject (id : N) (code description : bytes) (clock : N)
| OpMetadata (sid : N) (md : metadata) (clock : N)
| OpVideo (sid : N) (data : bytes) (ts : N) (drop : bool)
| OpAudio (sid : N) (data : bytes) (ts : N) (drop : bool)
| OpPing (clock : N)
| OpFinish (sid clock : N).

Definition server_step (s : server) (op : sop) : call :=
  match op with
  | OpInput i c => server_handle_input s i c
  | OpAccept id c => server_accept s id c
  | OpReject id code d c => server_reject s id code d c
  | OpMetadata sid md c => server_send_metadata s sid md c
  | OpVideo sid d ts drop => server_send_video s sid d ts drop
  | OpAudio sid d ts drop => server_send_audio s sid d ts drop
  | OpPing c => server_send_ping s c
  | OpFinish sid c => server_finish_playing s sid c
  end.

Fixpoint server_run (s : server) (ops : list sop) : server :=
  match ops with [] => s | op :: r => server_run (fst (server_step s op)) r end.

Lemma Inv_core s s' : same_core s s' -> Inv s -> Inv s'.
Proof.
  intros [H1 [H2 [H3 [H4 [H5 [H6 _]]]]]] [I1 [I2 I3]]. unfold Inv. rewrite H1, H2, H3, H4, H5, H6. repeat split; assumption.
Qed.

Lemma Inv_one_packet s m ts sid force drop s' r : one_packet s m ts sid force drop = (s', r) -> Inv s -> Inv s'.
Proof. intros H. destruct (one_packet_spec _ _ _ _ _ _ _ _ H) as [Hc _]. apply Inv_core. exact Hc. Qed.

Lemma Inv_sending s m ts sid force drop k s' r :
  (forall s1 b s2 r2, Inv s1 -> k s1 b = (s2, r2) -> Inv s2) ->
  sending s m ts sid force drop k = (s', r) -> Inv s -> Inv s'.
Proof.
  intros Hk H HI. unfold sending in H.
  destruct (send_message (sv_ser s) m ts sid force drop) as [[b ser']|e|p|]; try (inversion H; subst; exact HI).
  apply (Hk _ _ _ _ (Inv_core s (upd_ser s ser') (same_core_refl s) HI) H).
Qed.

Lemma Inv_upd_de s d : Inv s -> Inv (upd_de s d).
Proof. intros H. exact H. Qed.
Lemma Inv_upd_ack s a : Inv s -> Inv (upd_ack s a).
Proof. intros H. exact H. Qed.
Lemma Inv_upd_ser s x : Inv s -> Inv (upd_ser s x).
Proof. intros H. exact H. Qed.

Lemma Inv_new_request s r s' n : Inv s -> new_request s r = (s', n) -> Inv s'.
Proof. intros HI H. destruct (new_request_fresh s r s' n HI H) as [_ [_ [_ [_ HI']]]]. exact HI'. Qed.

Lemma Inv_h_command s sid name tr obj args clock s' r : h_command s sid name tr obj args clock = (s', r) -> Inv s -> Inv s'.
Proof.
  unfold h_command. intros H HI.
  destruct (bytes_eqb name (str "connect")).
  { unfold h_connect in H. destruct obj; try (inversion H; subst; exact HI).
    destruct (prop_get (str "app") props) as [[]|]; try (inversion H; subst; exact HI).
    destruct (new_request _ _) as [s1 n] eqn:En. inversion H; subst.
    eapply Inv_new_request; [|exact En]. exact HI. }
  destruct (bytes_eqb name (str "closeStream")).
  { unfold h_close_or_delete in H. destruct (negb (sv_connected s)); [inversion H; subst; exact HI|].
    destruct (sv_app s); [|inversion H; subst; exact HI].
    destruct args as [|[] ?]; try (inversion H; subst; exact HI).
    destruct (lookup (f64_to_u32 bits) (sv_streams s)) eqn:El; inversion H; subst; [|exact HI].
    destruct HI as [I1 [I2 I3]]. split; [exact I1|]. split; [|exact I3]. cbn.
    apply keys_below_insert_same; [exact I2|exact (I2 _ _ El)]. }
  destruct (bytes_eqb name (str "createStream")).
  { unfold h_create_stream in H. apply Inv_one_packet in H; [exact H|].
    destruct HI as [I1 [I2 I3]]. split; [exact I1|]. split; [|exact I3]. cbn. apply keys_below_insert; [exact I2|lia]. }
  destruct (bytes_eqb name (str "deleteStream")).
  { unfold h_close_or_delete in H. destruct (negb (sv_connected s)); [inversion H; subst; exact HI|].
    destruct (sv_app s); [|inversion H; subst; exact HI].
    destruct args as [|[] ?]; try (inversion H; subst; exact HI).
    destruct (lookup (f64_to_u32 bits) (sv_streams s)) eqn:El; inversion H; subst; [|exact HI].
    destruct HI as [I1 [I2 I3]]. split; [exact I1|]. split; [|exact I3]. cbn. apply keys_below_remove. exact I2. }
  destruct (bytes_eqb name (str "play")).
  { unfold h_play in H. destruct args as [|a0 rest]; [apply (Inv_one_packet _ _ _ _ _ _ _ _ H HI)|].
    destruct (negb (sv_connected s)); [apply (Inv_one_packet _ _ _ _ _ _ _ _ H HI)|].
    destruct (sv_app s); [|apply (Inv_one_packet _ _ _ _ _ _ _ _ H HI)].
    destruct a0; try apply (Inv_one_packet _ _ _ _ _ _ _ _ H HI).
    destruct (new_request _ _) as [s1 n] eqn:En. inversion H; subst. apply (Inv_new_request _ _ _ _ HI En). }
  destruct (bytes_eqb name (str "publish")).
  { unfold h_publish in H. destruct args as [|a0 [|a1 rest]]; try apply (Inv_one_packet _ _ _ _ _ _ _ _ H HI).
    destruct (negb (sv_connected s)); [apply (Inv_one_packet _ _ _ _ _ _ _ _ H HI)|].
    destruct (sv_app s); [|apply (Inv_one_packet _ _ _ _ _ _ _ _ H HI)].
    destruct a0; try apply (Inv_one_packet _ _ _ _ _ _ _ _ H HI).
    destruct a1; try apply (Inv_one_packet _ _ _ _ _ _ _ _ H HI).
    destruct (mode_of s1); [|apply (Inv_one_packet _ _ _ _ _ _ _ _ H HI)].
    destruct (new_request _ _) as [s2 n] eqn:En. inversion H; subst. apply (Inv_new_request _ _ _ _ HI En). }
  inversion H; subst. exact HI.
Qed.

Lemma Inv_h_message s p clock s' r : h_message s p clock = (s', r) -> Inv s -> Inv s'.
Proof.
  unfold h_message. intros H HI.
  destruct (of_payload (m_tid p) (m_data p)) as [m|e|x|]; try (inversion H; subst; exact HI).
  destruct m; try (inversion H; subst; exact HI).
  - apply (Inv_h_command _ _ _ _ _ _ _ _ _ H HI).
  - unfold h_data in H. destruct values as [|[] rest]; try (inversion H; subst; exact HI).
    destruct (bytes_eqb s0 (str "@setDataFrame")); [|inversion H; subst; exact HI].
    destruct rest as [|[] [|obj rest']]; try (inversion H; subst; exact HI).
    destruct (bytes_eqb s1 (str "onMetaData")); [|inversion H; subst; exact HI].
    destruct (publishing_key s (m_sid p)) as [[]|]; inversion H; subst; exact HI.
  - rewrite media_gate in H. inversion H; subst; exact HI.
  - destruct (de_set_max_chunk_size (sv_de s) size); inversion H; subst; exact HI.
  - destruct ev; try (inversion H; subst; exact HI). apply (Inv_one_packet _ _ _ _ _ _ _ _ H HI).
  - rewrite media_gate in H. inversion H; subst; exact HI.
Qed.

Lemma Inv_h_loop fuel : forall s input clock acc s' r, h_loop fuel s input clock acc = (s', r) -> Inv s -> Inv s'.
Proof.
  induction fuel as [|f IH]; intros s input clock acc s' r H HI; cbn [h_loop] in H; [inversion H; subst; exact HI|].
  destruct (get_next_message (sv_de s) input) as [d res]. destruct res as [p|e| |]; try (inversion H; subst; exact HI).
  destruct (h_message (upd_de s d) p clock) as [s1 r1] eqn:Em.
  pose proof (Inv_h_message _ _ _ _ _ Em (Inv_upd_de s d HI)) as H1.
  destruct r1; try (inversion H; subst; exact H1). apply (IH _ _ _ _ _ _ H H1).
Qed.

Lemma Inv_step s op : Inv s -> Inv (fst (server_step s op)).
Proof.
  intros HI. destruct op; cbn [server_step].
  - unfold server_handle_input. destruct (ack_step (sv_ack s) (lenN input)) as [a [n|]].
    + destruct (send_message (sv_ser s) (MAcknowledgement n) clock 0 false false) as [[b ser']|e|x|]; cbn [fst]; try exact HI.
      destruct (h_loop _ _ _ _ _) as [s1 r1] eqn:El. cbn [fst]. apply (Inv_h_loop _ _ _ _ _ _ _ El). exact HI.
    + destruct (h_loop _ _ _ _ _) as [s1 r1] eqn:El. cbn [fst]. apply (Inv_h_loop _ _ _ _ _ _ _ El). exact HI.
  - unfold server_accept. destruct (lookup id (sv_reqs s)) as [req|] eqn:El; [|exact HI].
    assert (HI1 : Inv (upd_reqs s (remove id (sv_reqs s)) (sv_next_req s))).
    { destruct HI as [I1 [I2 I3]]. split; [cbn; apply keys_below_remove; exact I1|]. split; assumption. }
    destruct req as [app tr|key mode sid|key sid].
    + unfold accept_connection. destruct (one_packet _ _ _ _ _ _) as [s1 r1] eqn:E1. cbn [fst].
      apply (Inv_one_packet _ _ _ _ _ _ _ _ E1). destruct HI1 as [I1 [I2 I3]]. split; [exact I1|]. split; [exact I2|].
      intros _. cbn. eexists; reflexivity.
    + unfold accept_publish. cbn [sv_streams upd_reqs]. destruct (lookup sid (sv_streams s)) eqn:Es; [|exact HI1].
      destruct (sending _ _ _ _ _ _ _) as [s1 r1] eqn:E1. cbn [fst].
      assert (HI2 : Inv (upd_streams (upd_reqs s (remove id (sv_reqs s)) (sv_next_req s)) (insert sid (StPublishing key mode) (sv_streams s)) (sv_next_stream s))).
      { destruct HI1 as [I1 [I2 I3]]. split; [exact I1|]. split; [|exact I3]. cbn.
        destruct HI as [_ [J2 _]]. apply keys_below_insert_same; [exact J2|exact (J2 _ _ Es)]. }
      eapply Inv_sending; [|exact E1|exact HI2].
      intros ? ? ? ? Ha Hb. eapply Inv_sending; [|exact Hb|exact Ha].
      intros ? ? ? ? Hc Hd. inversion Hd; subst. exact Hc.
    + unfold accept_play. cbn [sv_streams upd_reqs]. destruct (lookup sid (sv_streams s)) eqn:Es; [|exact HI1].
      destruct (sending _ _ _ _ _ _ _) as [s1 r1] eqn:E1. cbn [fst].
      assert (HI2 : Inv (upd_streams (upd_reqs s (remove id (sv_reqs s)) (sv_next_req s)) (insert sid (StPlaying key) (sv_streams s)) (sv_next_stream s))).
      { destruct HI1 as [I1 [I2 I3]]. split; [exact I1|]. split; [|exact I3]. cbn.
        destruct HI as [_ [J2 _]]. apply keys_below_insert_same; [exact J2|exact (J2 _ _ Es)]. }
      eapply Inv_sending; [|exact E1|exact HI2].
      intros ? ? ? ? Ha Hb. eapply Inv_sending; [|exact Hb|exact Ha].
      intros ? ? ? ? Hc Hd. eapply Inv_sending; [|exact Hd|exact Hc].
      intros ? ? ? ? He Hf. eapply Inv_sending; [|exact Hf|exact He].
      intros ? ? ? ? Hg Hh. eapply Inv_sending; [|exact Hh|exact Hg].
      intros ? ? ? ? Hi Hj. inversion Hj; subst. exact Hi.
  - unfold server_reject. destruct (lookup id (sv_reqs s)) as [req|] eqn:El; [|exact HI].
    destruct (match req with RConnection _ tr => (tr, 0) | RPublish _ _ sid => (0, sid) | RPlay _ sid => (0, sid) end) as [tr sid].
    destruct (one_packet _ _ _ _ _ _) as [s1 r1] eqn:E1. cbn [fst]. apply (Inv_one_packet _ _ _ _ _ _ _ _ E1).
    destruct HI as [I1 [I2 I3]]. split; [cbn; apply keys_below_remove; exact I1|]. split; assumption.
  - unfold server_send_metadata. destruct (one_packet _ _ _ _ _ _) as [s1 r1] eqn:E1. apply (Inv_one_packet _ _ _ _ _ _ _ _ E1 HI).
  - unfold server_send_video. destruct (one_packet _ _ _ _ _ _) as [s1 r1] eqn:E1. apply (Inv_one_packet _ _ _ _ _ _ _ _ E1 HI).
  - unfold server_send_audio. destruct (one_packet _ _ _ _ _ _) as [s1 r1] eqn:E1. apply (Inv_one_packet _ _ _ _ _ _ _ _ E1 HI).
  - unfold server_send_ping. destruct (one_packet _ _ _ _ _ _) as [s1 r1] eqn:E1. apply (Inv_one_packet _ _ _ _ _ _ _ _ E1 HI).
  - unfold server_finish_playing. destruct (lookup sid (sv_streams s)) as [[]|] eqn:Es; try exact HI.
    destruct (one_packet _ _ _ _ _ _) as [s1 r1] eqn:E1. cbn [fst]. apply (Inv_one_packet _ _ _ _ _ _ _ _ E1).
    destruct HI as [I1 [I2 I3]]. split; [exact I1|]. split; [|exact I3]. cbn. apply keys_below_insert_same; [exact I2|exact (I2 _ _ Es)].
Qed.

Theorem Inv_reachable s ops : Inv s -> Inv (server_run s ops).
Proof. revert s. induction ops as [|op r IH]; intros s H; [exact H|]. cbn [server_run]. apply IH. apply Inv_step. exact H. Qed.

Lemma Inv_new c clock s r : server_new c clock = (s, r) -> Inv s.
Proof.
  unfold server_new. intros H.
  set (s0 := {| sv_ser := ser_init; sv_de := de_init; sv_app := None; sv_reqs := []; sv_next_req := 0; sv_connected := false;
                sv_fms := cfg_fms c; sv_objenc := 0; sv_streams := []; sv_next_stream := 1;
                sv_ack := {| ack_window := None; ack_since := 0 |} |}) in *.
  assert (H0 : Inv s0). { split; [intros k v Hl; discriminate|]. split; [intros k v Hl; discriminate|intros Hc; discriminate]. }
  destruct (ChunkSer.set_max_chunk_size (sv_ser s0) (cfg_chunk c) 0) as [[b1 ser1]|e|x|]; try (inversion H; subst; exact H0).
  eapply Inv_sending; [|exact H|exact H0].
  intros ? ? ? ? Ha Hb. eapply Inv_sending; [|exact Hb|exact Ha].
  intros ? ? ? ? Hc Hd. eapply Inv_sending; [|exact Hd|exact Hc].
  intros ? ? ? ? He Hf. destruct (cfg_bwdone c); [|inversion Hf; subst; exact He].
  eapply Inv_sending; [|exact Hf|exact He]. intros ? ? ? ? Hg Hh. inversion Hh; subst. exact Hg.
Qed.

Theorem Inv_from_new c clock s r ops : server_new c clock = (s, r) -> Inv (server_run s ops).
Proof. intros H. apply Inv_reachable. exact (Inv_new c clock s r H). Qed.
