(* C02, play direction: a metadata item the server sends is raised by the playing client as exactly that metadata.
   The server's property mapping (its own insertion order) is the identity through the client's reader; AMF0 round trip (C04);
   the general receive step of ProtocolFlow. *)
From Coq Require Import ZArith Lia ZifyN ZifyBool ZifyNat String.
From RML Require Import Model.Base Model.Utf8 Model.Chunk Model.ChunkSer Model.ChunkDe Model.Amf0 Model.Messages Model.Float Model.SessionCommon
  Model.Server Model.Client Spec.Amf0Spec Spec.Amf0Wire
  Proofs.Amf0Proofs Proofs.MessageProofs Proofs.ChunkSerProofs Proofs.ConfigProofs Proofs.InteropProofs Proofs.FloatProofs Proofs.MetadataProofs
  Proofs.ServerProofs Proofs.SessionFrame Proofs.SessionPartition Proofs.ProtocolProofs Proofs.ProtocolFlow.
Local Open Scope N_scope.

Theorem metadata_roundtrip_server m : md_ok m -> metadata_of_props (metadata_props_server m) = m.
Proof.
  intros [H1 [H2 [H3 [H4 [H5 [H6 [H7 [H8 H9]]]]]]]].
  unfold metadata_of_props, metadata_props_server, num_u32. pg.
  destruct m as [w h vc fr vb ac ab asr ach st enc]. cbn [md_width md_height md_vcodec md_framerate md_vbitrate md_acodec md_abitrate md_asamplerate md_achannels md_stereo md_encoder] in *.
  repeat match goal with |- context [match ?o with Some _ => _ | None => _ end] => is_var o; destruct o end; cbv beta iota;
    repeat match goal with
    | |- context [f64_to_u32 (u32_to_f64 ?x)] =>
        rewrite (u32_roundtrip x) by (solve [apply H1; reflexivity|apply H2; reflexivity|apply H3; reflexivity|apply H4; reflexivity|apply H5; reflexivity|apply H6; reflexivity|apply H7; reflexivity|apply H8; reflexivity])
    | |- context [f64_to_f32 (f32_to_f64 ?x)] => rewrite (proj2 (H9 x eq_refl))
    end; reflexivity.
Qed.

Definition md_keys_server : list bytes :=
  [str "width"; str "height"; str "videocodecid"; str "videodatarate"; str "framerate"; str "audiocodecid"; str "audiodatarate";
   str "audiosamplerate"; str "audiochannels"; str "stereo"; str "encoder"].
Lemma md_keys_server_nodup : NoDup md_keys_server.
Proof.
  unfold md_keys_server. repeat (constructor; [cbn [In]; intros Hx; repeat (destruct Hx as [Hx|Hx]; [vm_compute in Hx; discriminate Hx|]); exact Hx|]). constructor.
Qed.

Lemma md_props_server_wf m : md_ok m -> enc_ok m -> wf_value (VObject (metadata_props_server m)).
Proof.
  intros [H1 [H2 [H3 [H4 [H5 [H6 [H7 [H8 H9]]]]]]]] He.
  apply wf_value_object. split.
  - apply (sublist_nodup _ md_keys_server); [|exact md_keys_server_nodup]. unfold metadata_props_server, md_keys_server. rewrite !map_app.
    repeat (apply (sublist_app _ [_]); [apply sublist_opt|]). apply sublist_opt.
  - unfold metadata_props_server. rewrite !wf_props_app.
    assert (Hn : forall k (o : option N), (forall x, o = Some x -> x < 4294967296) -> utf8_valid (str k) = true ->
                   wf_props (opt_prop k o (fun x => VNumber (u32_to_f64 x)))).
    { intros k o Ho Hk. destruct o as [x|]; cbn [opt_prop wf_props wf_value]; [|exact I]. split; [exact Hk|]. split; [|exact I].
      apply u32_to_f64_bound. apply Ho. reflexivity. }
    repeat split; try (apply Hn; [assumption|reflexivity]).
    + destruct (md_framerate m) as [x|] eqn:E; cbn [opt_prop wf_props wf_value]; [|exact I]. split; [reflexivity|]. split; [|exact I].
      apply f32_to_f64_bound. apply (H9 x eq_refl).
    + destruct (md_stereo m); cbn [opt_prop wf_props wf_value]; [|exact I]. split; [reflexivity|]. split; exact I.
    + destruct (md_encoder m) as [s|] eqn:E; cbn [opt_prop wf_props wf_value]; [|exact I]. split; [reflexivity|]. split; [|exact I].
      apply (He s E).
Qed.

Theorem play_metadata_delivered s c sid md clock cclock s1 r1 :
  Link (sv_ser s) (cl_de c) -> ser_ok (cl_ser c) -> playing_on c sid -> sid < 4294967296 -> clock < 4294967296 ->
  md_ok md -> enc_ok md ->
  server_send_metadata s sid md clock = (s1, ROk r1) ->
  exists b c2 r2, r1 = [SPacket b false] /\ same_core s s1 /\ sv_de s1 = sv_de s /\
    client_handle_input c b cclock = (c2, COk r2) /\
    cevents r2 = [CMetadata md] /\ playing_on c2 sid /\ cl_state c2 = cl_state c /\
    Link (sv_ser s1) (cl_de c2) /\ ser_ok (cl_ser c2) /\
    (quiet (cl_ack c) b -> r2 = [CEvent (CMetadata md)] /\ cl_ser c2 = cl_ser c).
Proof.
  intros HL Hcs [Hst Hstr] Hsid Hclk Hm He Hsend.
  unfold server_send_metadata, one_packet, sending in Hsend.
  set (M := MAmf0Data [VString (str "onMetaData"); VObject (metadata_props_server md)]) in *.
  destruct (send_message (sv_ser s) M clock sid false false) as [[b ser']|e|x|] eqn:Es; try discriminate Hsend.
  injection Hsend as <- <-.
  assert (Hok : msg_ok M) by (cbn [msg_ok M wf_values]; split; [reflexivity|split; [exact (md_props_server_wf md Hm He)|exact I]]).
  destruct (client_receives c (sv_ser s) M clock sid false false b ser' cclock HL Hcs Hok I Hclk Hsid Es)
    as [pk [de1 [de3 [c0 [pre [Hof [Hpsid [Hts [[E1 [E2 [E3 [E4 [E5 E6]]]]] [Hd0 [Hs0 [Hpre [Hq [Hack [HL2 Hrun]]]]]]]]]]]]]]].
  assert (Hmm : ch_message (cupd_de c0 de1) pk cclock = (cupd_de c0 de1, COk [CEvent (CMetadata md)])).
  { unfold ch_message. rewrite Hof. unfold M. cbv iota. unfold ch_data. cbn [cl_stream cupd_de]. rewrite E6, Hstr, Hpsid, N.eqb_refl.
    rewrite bytes_eqb_refl. rewrite (metadata_roundtrip_server md Hm). reflexivity. }
  rewrite Hmm in Hrun. cbv iota beta in Hrun.
  exists b. eexists. eexists. split; [reflexivity|]. split; [repeat split|]. split; [reflexivity|]. split; [exact Hrun|].
  cbn [cl_state cl_stream cl_de cl_ser cupd_de sv_ser upd_ser].
  split; [rewrite cevents_pre by exact Hpre; reflexivity|].
  split; [unfold playing_on; cbn [cl_state cl_stream cupd_de]; split; [rewrite E4; exact Hst|rewrite E6; exact Hstr]|]. split; [exact E4|]. split; [exact HL2|]. split; [exact Hs0|].
  intros Hquiet. destruct (Hq Hquiet) as [-> Hser0]. split; [reflexivity|exact Hser0].
Qed.
