(* C02, transport for whole session calls: the packets returned by ANY successful call of either session, delivered in ANY
   fragmentation to a deserializer linked with that session's serializer, are decoded as exactly one message per packet, in order,
   without error, and the link holds again afterwards - so it holds along every schedule of calls and deliveries. *)
From Coq Require Import ZArith Lia ZifyN ZifyBool ZifyNat.
From RML Require Import Model.Base Model.Chunk Model.ChunkSer Model.ChunkDe Model.SessionCommon Model.Server Model.Client
  Proofs.ChunkSerProofs Proofs.InteropProofs Proofs.Transport Proofs.ServerProofs Proofs.SessionFrame Proofs.SessionTrace Proofs.ClientTrace.
Local Open Scope N_scope.

Theorem client_call_transport c op de pieces :
  cop_ok op -> cinv c -> ser_ok (cl_ser c) -> Link (cl_ser c) de ->
  match client_step c op with
  | (c', COk rs) =>
      concat pieces = concat (map fst (cpkts rs)) ->
      exists de' msgs, feed_all de pieces [] = (de', msgs, None) /\ length msgs = length (cpkts rs) /\ Link (cl_ser c') de' /\ cinv c'
  | _ => True
  end.
Proof.
  intros Hop Hi Hs HL. pose proof (client_step_traced c op Hop Hi Hs) as Ht.
  destruct (client_step c op) as [c' r]. destruct r as [rs| |]; try exact I.
  destruct Ht as [[ops [Hwf [Hrun Hd]]] Hi']. intros Hcat.
  destruct (link_run (cl_ser c) de ops _ (cl_ser c') pieces HL Hwf Hrun Hcat) as [de' [Hf HL']].
  exists de', (map op_msg ops). split; [exact Hf|]. split; [|split; assumption].
  rewrite map_length. rewrite <- (map_length op_drop), Hd, map_length. reflexivity.
Qed.

Theorem server_call_transport s op de pieces :
  sop_ok op -> sinv s -> ser_ok (sv_ser s) -> Link (sv_ser s) de ->
  match server_step s op with
  | (s', ROk rs) =>
      concat pieces = concat (map fst (pkts rs)) ->
      exists de' msgs, feed_all de pieces [] = (de', msgs, None) /\ length msgs = length (pkts rs) /\ Link (sv_ser s') de' /\ sinv s'
  | _ => True
  end.
Proof.
  intros Hop Hi Hs HL. pose proof (server_step_traced s op Hop Hi Hs) as Ht.
  destruct (server_step s op) as [s' r]. destruct r as [rs| |]; try exact I.
  destruct Ht as [[ops [Hwf [Hrun Hd]]] Hi']. intros Hcat.
  destruct (link_run (sv_ser s) de ops _ (sv_ser s') pieces HL Hwf Hrun Hcat) as [de' [Hf HL']].
  exists de', (map op_msg ops). split; [exact Hf|]. split; [|split; assumption].
  rewrite map_length. rewrite <- (map_length op_drop), Hd, map_length. reflexivity.
Qed.
