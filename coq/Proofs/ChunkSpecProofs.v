(* Byte front end of the spec decoder: parsing the encoding of a legal chunk record gives the record back. *)
From Coq Require Import ZArith Lia ZifyN ZifyBool ZifyNat.
From RML Require Import Model.Base Model.Chunk Spec.ChunkSpec Proofs.BaseProofs.
Ltac Zify.zify_post_hook ::= Z.div_mod_to_equations.
Local Open Scope N_scope.

(* ---------------------------------------------------------------- association lists *)
Lemma lookup_remove_same {A} k (m : list (N * A)) : lookup k (remove k m) = None.
Proof.
  induction m as [|[k' v] r IH]; [reflexivity|]. cbn [remove].
  destruct (k =? k') eqn:E; [exact IH|]. cbn [lookup]. rewrite E. exact IH.
Qed.

Lemma lookup_remove_other {A} k k' (m : list (N * A)) : k' <> k -> lookup k' (remove k m) = lookup k' m.
Proof.
  intros Hne. induction m as [|[k2 v] r IH]; [reflexivity|]. cbn [remove lookup].
  destruct (k =? k2) eqn:E.
  - apply N.eqb_eq in E. subst k2. destruct (k' =? k) eqn:E2; [apply N.eqb_eq in E2; contradiction|]. exact IH.
  - cbn [lookup]. destruct (k' =? k2); [reflexivity|exact IH].
Qed.

Lemma lookup_insert_same {A} k (v : A) m : lookup k (insert k v m) = Some v.
Proof. unfold insert. cbn [lookup]. rewrite N.eqb_refl. reflexivity. Qed.

Lemma lookup_insert_other {A} k k' (v : A) m : k' <> k -> lookup k' (insert k v m) = lookup k' m.
Proof.
  intros Hne. unfold insert. cbn [lookup]. destruct (k' =? k) eqn:E; [apply N.eqb_eq in E; contradiction|].
  apply lookup_remove_other. exact Hne.
Qed.

(* ---------------------------------------------------------------- list splitting *)
Lemma take_n_app (a b : bytes) : take_n (a ++ b) (lenN a) = Some (a, b).
Proof.
  induction a as [|x a IH].
  - cbn [app]. destruct b; reflexivity.
  - cbn [app take_n]. rewrite lenN_cons.
    destruct (lenN a + 1 =? 0) eqn:E; [lia|].
    replace (lenN a + 1 - 1) with (lenN a) by lia. rewrite IH. reflexivity.
Qed.

Lemma take_n_app_len (a b : bytes) n : n = lenN a -> take_n (a ++ b) n = Some (a, b).
Proof. intros ->. apply take_n_app. Qed.

Lemma split_at_app (a b : bytes) : split_at (lenN a) (a ++ b) = (a, b).
Proof.
  induction a as [|x a IH].
  - cbn [app]. destruct b; reflexivity.
  - cbn [app split_at]. rewrite lenN_cons.
    destruct (lenN a + 1 =? 0) eqn:E; [lia|].
    replace (lenN a + 1 - 1) with (lenN a) by lia. rewrite IH. reflexivity.
Qed.

Lemma drop_n_app (a b : bytes) : drop_n (lenN a) (a ++ b) = b.
Proof.
  induction a as [|x a IH].
  - cbn [app]. destruct b; reflexivity.
  - cbn [app drop_n]. rewrite lenN_cons.
    destruct (lenN a + 1 =? 0) eqn:E; [lia|].
    replace (lenN a + 1 - 1) with (lenN a) by lia. exact IH.
Qed.

Lemma split_at_be24 x l : split_at 3 (be24 x ++ l) = (be24 x, l).
Proof. change 3 with (lenN (be24 x)). apply split_at_app. Qed.
Lemma drop_n_be24 x l : drop_n 3 (be24 x ++ l) = l.
Proof. change 3 with (lenN (be24 x)). apply drop_n_app. Qed.
Lemma drop_n_6 x y l : drop_n 6 (be24 x ++ be24 y ++ l) = l.
Proof. rewrite app_assoc. change 6 with (lenN (be24 x ++ be24 y)). apply drop_n_app. Qed.
Lemma drop_n_7 x y z l : drop_n 7 (be24 x ++ be24 y ++ [z] ++ l) = l.
Proof. rewrite (app_assoc (be24 y)). rewrite app_assoc. change 7 with (lenN (be24 x ++ be24 y ++ [z])). apply drop_n_app. Qed.
Lemma split_at_1 (z : N) l : split_at 1 (z :: l) = ([z], l).
Proof. cbn [split_at]. change (1 =? 0) with false. cbv iota. change (1 - 1) with 0. destruct l; reflexivity. Qed.

(* ---------------------------------------------------------------- parse (emit c) = c *)
Definition fixed_bytes (c : chunk) : bytes :=
  let ts24 := be24 (N.min (c_field c) 16777215) in
  if c_fmt c =? 0 then ts24 ++ be24 (c_len c) ++ [c_tid c] ++ le32 (c_sid c)
  else if c_fmt c =? 1 then ts24 ++ be24 (c_len c) ++ [c_tid c]
  else if c_fmt c =? 2 then ts24
  else [].

Definition ext_bytes (c : chunk) : bytes := if 16777215 <=? c_field c then be32 (c_field c) else [].

Lemma emit_chunk_eq c :
  emit_chunk c = basic_header_bytes (c_fmt c) (c_csid c) (c_form c) ++ fixed_bytes c ++ ext_bytes c ++ c_payload c.
Proof. reflexivity. Qed.

Lemma parse_basic_emit fmt csid form rest :
  fmt <= 3 -> form_ok csid form = true ->
  parse_basic (basic_header_bytes fmt csid form ++ rest) = Some (fmt, csid, form, rest).
Proof.
  intros Hf Hform. unfold form_ok in Hform. unfold basic_header_bytes, parse_basic.
  destruct (form =? 1) eqn:E1.
  - assert (form = 1) by lia. subst form. cbn [app].
    assert (Hc : 2 <= csid <= 63) by lia.
    replace ((fmt * 64 + csid) mod 64) with csid by lia.
    replace ((fmt * 64 + csid) / 64) with fmt by lia.
    destruct (csid =? 0) eqn:E2; [lia|]. destruct (csid =? 1) eqn:E3; [lia|]. reflexivity.
  - destruct (form =? 2) eqn:E2.
    + assert (form = 2) by lia. subst form. cbn [app].
      assert (Hc : 64 <= csid <= 319) by lia.
      replace ((fmt * 64) mod 64) with 0 by lia. replace ((fmt * 64) / 64) with fmt by lia.
      change (0 =? 0) with true. cbv iota. replace (csid - 64 + 64) with csid by lia. reflexivity.
    + assert (form = 3) by lia. subst form. cbn [app].
      assert (Hc : 64 <= csid <= 65599) by lia.
      replace ((fmt * 64 + 1) mod 64) with 1 by lia. replace ((fmt * 64 + 1) / 64) with fmt by lia.
      change (1 =? 0) with false. change (1 =? 1) with true. cbv iota.
      replace ((csid - 64) / 256 * 256 + (csid - 64) mod 256 + 64) with csid by lia. reflexivity.
Qed.

(* a record in the normal form the decoder accepts: omitted fields are 0 *)
Definition chunk_nf (c : chunk) : Prop :=
  (c_fmt c >= 2 -> c_len c = 0 /\ c_tid c = 0) /\ (c_fmt c >= 1 -> c_sid c = 0).

Lemma header_after_payload_irrel prev c p :
  header_after prev {| c_fmt := c_fmt c; c_csid := c_csid c; c_form := c_form c; c_field := c_field c;
                       c_len := c_len c; c_tid := c_tid c; c_sid := c_sid c; c_payload := p |} = header_after prev c.
Proof. reflexivity. Qed.

Lemma chunk_eta c : c = {| c_fmt := c_fmt c; c_csid := c_csid c; c_form := c_form c; c_field := c_field c;
                           c_len := c_len c; c_tid := c_tid c; c_sid := c_sid c; c_payload := c_payload c |}.
Proof. destruct c; reflexivity. Qed.

(* the fixed part of the message header decodes to the record's fields *)
Lemma fixed_decode c :
  chunk_wf c = true -> chunk_nf c ->
  let fixed := fixed_bytes c in
  lenN fixed = (if c_fmt c =? 0 then 11 else if c_fmt c =? 1 then 7 else if c_fmt c =? 2 then 3 else 0) /\
  (c_fmt c <= 2 -> of_be (fst (split_at 3 fixed)) = N.min (c_field c) 16777215) /\
  (if c_fmt c <=? 1 then of_be (fst (split_at 3 (drop_n 3 fixed))) else 0) = c_len c /\
  (if c_fmt c <=? 1 then of_be (fst (split_at 1 (drop_n 6 fixed))) else 0) = c_tid c /\
  (if c_fmt c =? 0 then of_le (drop_n 7 fixed) else 0) = c_sid c.
Proof.
  intros Hwf [Hnf1 Hnf2]. unfold chunk_wf in Hwf.
  apply andb_prop in Hwf; destruct Hwf as [Hwf _]. apply andb_prop in Hwf; destruct Hwf as [Hwf _].
  repeat (apply andb_prop in Hwf; destruct Hwf as [Hwf ?]).
  assert (Hfield : c_field c < 4294967296) by lia.
  assert (Hlen : c_len c < 16777216) by lia.
  assert (Htid : c_tid c < 256) by lia.
  assert (Hsid : c_sid c < 4294967296) by lia.
  assert (Hfmt : c_fmt c <= 3) by lia.
  set (t := N.min (c_field c) 16777215). assert (Ht : t < 16777216) by (unfold t; lia).
  unfold fixed_bytes. fold t.
  destruct (c_fmt c =? 0) eqn:E0; [|destruct (c_fmt c =? 1) eqn:E1; [|destruct (c_fmt c =? 2) eqn:E2]].
  - replace (c_fmt c <=? 1) with true by lia.
    split; [reflexivity|]. split; [|split; [|split]].
    + intros _. rewrite split_at_be24. cbn [fst]. apply of_be_be24. exact Ht.
    + rewrite drop_n_be24, split_at_be24. cbn [fst]. apply of_be_be24. exact Hlen.
    + rewrite drop_n_6. cbn [app]. rewrite split_at_1. cbn [fst]. unfold of_be, be_val. lia.
    + rewrite drop_n_7. apply of_le_le32. exact Hsid.
  - replace (c_fmt c <=? 1) with true by lia.
    split; [reflexivity|]. split; [|split; [|split]].
    + intros _. rewrite split_at_be24. cbn [fst]. apply of_be_be24. exact Ht.
    + rewrite drop_n_be24, split_at_be24. cbn [fst]. apply of_be_be24. exact Hlen.
    + rewrite drop_n_6. rewrite split_at_1. cbn [fst]. unfold of_be, be_val. lia.
    + symmetry. apply Hnf2. lia.
  - replace (c_fmt c <=? 1) with false by lia.
    assert (Hz : c_len c = 0 /\ c_tid c = 0) by (apply Hnf1; lia). destruct Hz as [Hz1 Hz2].
    split; [reflexivity|]. split; [|split; [|split]].
    + intros _. rewrite <- (app_nil_r (be24 t)). rewrite split_at_be24. cbn [fst]. apply of_be_be24. exact Ht.
    + symmetry; exact Hz1.
    + symmetry; exact Hz2.
    + symmetry. apply Hnf2. lia.
  - replace (c_fmt c <=? 1) with false by lia.
    assert (Hz : c_len c = 0 /\ c_tid c = 0) by (apply Hnf1; lia). destruct Hz as [Hz1 Hz2].
    split; [reflexivity|]. split; [|split; [|split]].
    + intros Hle. lia.
    + symmetry; exact Hz1.
    + symmetry; exact Hz2.
    + symmetry. apply Hnf2. lia.
Qed.

Lemma chunk_wf_nf c : chunk_wf c = true -> chunk_nf c.
Proof.
  unfold chunk_wf, chunk_nf. intros H.
  apply andb_prop in H; destruct H as [H H2]. apply andb_prop in H; destruct H as [H H1].
  split; intros Hf.
  - replace (2 <=? c_fmt c) with true in H1 by lia. lia.
  - replace (1 <=? c_fmt c) with true in H2 by lia. lia.
Qed.

(* what header_after tells about a format-3 chunk: the record's field mirrors the stream's *)
Lemma header_after_fmt3 prev c s :
  c_fmt c = 3 -> header_after prev c = Some s ->
  exists s0, prev = Some s0 /\
    (16777215 <=? c_field c) = (16777215 <=? cs_field s0) /\
    ((16777215 <=? cs_field s0) = false -> c_field c = cs_field s0).
Proof.
  intros Hf H. unfold header_after in H. rewrite Hf in H.
  destruct prev as [s0|]; [|discriminate]. exists s0. split; [reflexivity|].
  change (3 =? 3) with true in H. change (3 =? 0) with false in H. change (3 =? 1) with false in H. change (3 =? 2) with false in H.
  destruct (in_message s0).
  - destruct ((c_field c =? cs_field s0) || ((16777215 <=? c_field c) && (16777215 <=? cs_field s0))) eqn:E; [|discriminate].
    split; [lia|intros; lia].
  - destruct (c_field c =? cs_field s0) eqn:E; [|discriminate]. apply N.eqb_eq in E. rewrite E. split; [reflexivity|intros; reflexivity].
Qed.

Lemma parse_emit st c rest s :
  chunk_wf c = true ->
  header_after (lookup (c_csid c) (sd_cs st)) c = Some s ->
  lenN (c_payload c) = expected_payload (sd_max st) s ->
  parse_chunk st (emit_chunk c ++ rest) = PChunk c rest.
Proof.
  intros Hwf Hh Hp. pose proof (chunk_wf_nf c Hwf) as Hnf.
  pose proof (fixed_decode c Hwf Hnf) as Hfx. cbv zeta in Hfx. destruct Hfx as [Hl [Hts [Hlen [Htid Hsid]]]].
  assert (Hwf' := Hwf). unfold chunk_wf in Hwf'.
  apply andb_prop in Hwf'; destruct Hwf' as [Hwf' _]. apply andb_prop in Hwf'; destruct Hwf' as [Hwf' _].
  repeat (apply andb_prop in Hwf'; destruct Hwf' as [Hwf' ?]).
  assert (Hfield : c_field c < 4294967296) by lia.
  assert (Hfmt : c_fmt c <= 3) by lia.
  unfold parse_chunk. rewrite emit_chunk_eq. rewrite <- app_assoc.
  rewrite parse_basic_emit by assumption.
  rewrite <- app_assoc. rewrite (take_n_app_len (fixed_bytes c)) by (symmetry; exact Hl).
  set (prev := lookup (c_csid c) (sd_cs st)) in *.
  (* the extended timestamp *)
  set (has_ext := if c_fmt c =? 3 then match prev with Some s0 => 16777215 <=? cs_field s0 | None => false end
                  else of_be (fst (split_at 3 (fixed_bytes c))) =? 16777215).
  assert (Hext : has_ext = (16777215 <=? c_field c) /\
                 (has_ext = false -> (if c_fmt c =? 3 then match prev with Some s0 => cs_field s0 | None => 0 end
                                      else of_be (fst (split_at 3 (fixed_bytes c)))) = c_field c)).
  { unfold has_ext. destruct (c_fmt c =? 3) eqn:E3.
    - assert (Hf3 : c_fmt c = 3) by lia. destruct (header_after_fmt3 prev c s Hf3 Hh) as [s0 [Hp0 [He1 He2]]].
      rewrite Hp0. split; [symmetry; exact He1|]. intros Hf. symmetry. apply He2. exact Hf.
    - rewrite Hts by lia. split; [lia|]. intros Hf. lia. }
  destruct Hext as [He1 He2].
  assert (Hfieldv : (if has_ext then of_be (be32 (c_field c)) else
                      if c_fmt c =? 3 then match prev with Some s0 => cs_field s0 | None => 0 end
                      else of_be (fst (split_at 3 (fixed_bytes c)))) = c_field c).
  { destruct has_ext eqn:Eh; [apply of_be_be32; exact Hfield|apply He2; reflexivity]. }
  unfold ext_bytes. rewrite <- He1.
  destruct has_ext eqn:Eh.
  - rewrite <- app_assoc. rewrite (take_n_app_len (be32 (c_field c))) by reflexivity.
    rewrite Hfieldv. rewrite Hlen, Htid, Hsid.
    rewrite header_after_payload_irrel. rewrite Hh.
    rewrite (take_n_app_len (c_payload c)) by (symmetry; exact Hp).
    cbn [c_len c_tid c_sid]. rewrite <- chunk_eta. reflexivity.
  - cbn [app]. rewrite Hfieldv. rewrite Hlen, Htid, Hsid.
    rewrite header_after_payload_irrel. rewrite Hh.
    rewrite (take_n_app_len (c_payload c)) by (symmetry; exact Hp).
    cbn [c_len c_tid c_sid]. rewrite <- chunk_eta. reflexivity.
Qed.
