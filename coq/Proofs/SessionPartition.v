(* C15 for the server session: the events (and the verdict) of a history of handle_input calls do not depend on how the
   peer's byte stream is split into calls.  Step B: the message loop of handle_input (h_loop) on a ++ b is the loop on a
   followed by the loop on b - handlers commute with bytes waiting in the deserializer's buffer.  Step A: the acknowledgement
   prelude of handle_input only changes the serializer and the acknowledgement counter, which no handler's events depend on. *)
From Coq Require Import ZArith Lia ZifyN ZifyBool ZifyNat String.
From RML Require Import Model.Base Model.Time Model.Chunk Model.ChunkSer Model.ChunkDe Model.Amf0 Model.Messages Model.SessionCommon
  Model.Server Gen.Consts Proofs.BaseProofs Proofs.ChunkDeProofs Proofs.ChunkDeFuel Proofs.TotalProofs Proofs.ConfigProofs
  Proofs.InteropProofs Proofs.ServerProofs Proofs.SessionFrame.
Local Open Scope N_scope.

Definition sext (s : server) (x : bytes) : server := upd_de s (ext (sv_de s) x).

Lemma sext_nil s : sext s [] = s.
Proof. unfold sext. rewrite ext_nil. destruct s; reflexivity. Qed.
Lemma sext_sext s a b : sext (sext s a) b = sext s (a ++ b).
Proof. unfold sext. cbn [sv_de upd_de]. rewrite ext_ext. reflexivity. Qed.

(* ---------------------------------------------------------------- handlers commute with waiting bytes *)
Definition commutes (x : bytes) (c1 c2 : call) : Prop := c1 = (sext (fst c2) x, snd c2).

Lemma one_packet_sext x s m ts sid f d : commutes x (one_packet (sext s x) m ts sid f d) (one_packet s m ts sid f d).
Proof.
  unfold commutes, one_packet, sending. change (sv_ser (sext s x)) with (sv_ser s).
  destruct (send_message _ _ _ _ _ _) as [[b ser']|e|y|]; reflexivity.
Qed.

Ltac cm_step :=
  first [ progress cbn [sv_ser sv_de sv_app sv_reqs sv_next_req sv_connected sv_fms sv_objenc sv_streams sv_next_stream sv_ack sext upd_de]
        | progress cbv beta iota
        | match goal with
          | |- commutes _ (one_packet (sext ?s ?x) _ _ _ _ _) (one_packet ?s _ _ _ _ _) => apply one_packet_sext
          | |- commutes _ (match ?y with _ => _ end) (match ?y with _ => _ end) => destruct y
          | |- commutes _ (if ?y then _ else _) (if ?y then _ else _) => destruct y
          | |- commutes _ (_, _) (_, _) => reflexivity
          end ].
Ltac cm_frame := cbv zeta; repeat cm_step.

Lemma h_connect_sext x s tr obj : commutes x (h_connect (sext s x) tr obj) (h_connect s tr obj).
Proof. unfold h_connect, new_request. cm_frame. Qed.
Lemma h_close_or_delete_sext x d s args : commutes x (h_close_or_delete d (sext s x) args) (h_close_or_delete d s args).
Proof. unfold h_close_or_delete. cm_frame. Qed.
Lemma h_create_stream_sext x s tr clock : commutes x (h_create_stream (sext s x) tr clock) (h_create_stream s tr clock).
Proof.
  unfold h_create_stream. cbv zeta.
  apply (one_packet_sext x (upd_streams s (insert (sv_next_stream s) StCreated (sv_streams s)) (sv_next_stream s + 1))).
Qed.
Lemma h_publish_sext x s sid tr args clock : commutes x (h_publish (sext s x) sid tr args clock) (h_publish s sid tr args clock).
Proof. unfold h_publish, new_request. cm_frame. Qed.
Lemma h_play_sext x s sid tr args clock : commutes x (h_play (sext s x) sid tr args clock) (h_play s sid tr args clock).
Proof. unfold h_play, new_request. cm_frame. Qed.
Lemma h_data_sext x s vs sid : commutes x (h_data (sext s x) vs sid) (h_data s vs sid).
Proof. unfold h_data, publishing_key. cm_frame. Qed.
Lemma h_media_sext x a s d sid ts : commutes x (h_media a (sext s x) d sid ts) (h_media a s d sid ts).
Proof. unfold h_media, publishing_key. cm_frame. Qed.

Lemma if_commutes x (b : bool) (a1 a2 b1 b2 : call) : commutes x a1 a2 -> commutes x b1 b2 -> commutes x (if b then a1 else b1) (if b then a2 else b2).
Proof. destruct b; auto. Qed.

Lemma h_command_sext x s sid name tr obj args clock :
  commutes x (h_command (sext s x) sid name tr obj args clock) (h_command s sid name tr obj args clock).
Proof.
  unfold h_command.
  apply if_commutes; [apply h_connect_sext|]. apply if_commutes; [apply h_close_or_delete_sext|].
  apply if_commutes; [apply h_create_stream_sext|]. apply if_commutes; [apply h_close_or_delete_sext|].
  apply if_commutes; [apply h_play_sext|]. apply if_commutes; [apply h_publish_sext|reflexivity].
Qed.

Lemma de_set_max_ext d n x :
  de_set_max_chunk_size (ext d x) n = match de_set_max_chunk_size d n with Ok d' => Ok (ext d' x) | Err e => Err e | Panic y => Panic y | OutOfFuel => OutOfFuel end.
Proof. unfold de_set_max_chunk_size. destruct (_ || _); reflexivity. Qed.

Theorem h_message_sext x s p clock : commutes x (h_message (sext s x) p clock) (h_message s p clock).
Proof.
  unfold h_message. destruct (of_payload (m_tid p) (m_data p)) as [m|e|y|]; try reflexivity.
  destruct m as [t d|n|n|name tr obj args|vs|d|n|n lt|ev sid bl ts|d|n]; try reflexivity.
  - apply h_command_sext.
  - apply h_data_sext.
  - apply h_media_sext.
  - change (sv_de (sext s x)) with (ext (sv_de s) x). rewrite de_set_max_ext.
    destruct (de_set_max_chunk_size (sv_de s) n) as [d|e|y|]; reflexivity.
  - destruct ev; try reflexivity. apply one_packet_sext.
  - apply h_media_sext.
Qed.

(* ---------------------------------------------------------------- the message loop, relationally (fuel-free) *)
(* sloop clock s acc s' seen r : from s with results acc so far, the loop ends in s' with verdict r; seen = every result produced,
   including those a failing call drops *)
Inductive verdict := VOk | VErr (e : serr) | VPanic.

Inductive sloop (clock : N) : server -> list sresult -> server -> list sresult -> verdict -> Prop :=
| sl_none s d acc : G (sv_de s) = (d, DNone) -> sloop clock s acc (upd_de s d) acc VOk
| sl_err s d e acc : G (sv_de s) = (d, DErr e) -> sloop clock s acc (upd_de s d) acc (VErr (SWire (WChunkDe e)))
| sl_ok s d p s1 rs acc s' seen v :
    G (sv_de s) = (d, DMsg p) -> h_message (upd_de s d) p clock = (s1, ROk rs) -> sloop clock s1 (acc ++ rs) s' seen v ->
    sloop clock s acc s' seen v
| sl_herr s d p s1 e acc : G (sv_de s) = (d, DMsg p) -> h_message (upd_de s d) p clock = (s1, RErr e) -> sloop clock s acc s1 acc (VErr e)
| sl_hpanic s d p s1 acc : G (sv_de s) = (d, DMsg p) -> h_message (upd_de s d) p clock = (s1, RPanic) -> sloop clock s acc s1 acc VPanic.

Definition reply_of (seen : list sresult) (v : verdict) : reply :=
  match v with VOk => ROk seen | VErr e => RErr e | VPanic => RPanic end.

(* the executable loop refines the relation *)
Lemma h_loop_sound clock fuel : forall s input acc,
  (nu (ext (sv_de s) input) < fuel)%nat ->
  exists s' seen v, h_loop fuel s input clock acc = (s', reply_of seen v) /\ sloop clock (sext s input) acc s' seen v.
Proof.
  induction fuel as [|f IH]; intros s input acc Hn; [lia|]. cbn [h_loop].
  pose proof (gnm_G (sv_de s) input) as Hg. pose proof (G_total (ext (sv_de s) input)) as Ht.
  destruct (get_next_message (sv_de s) input) as [d res] eqn:Eg. rewrite <- Hg in Ht. cbn [snd] in Ht.
  assert (Hupd : forall d0, upd_de (sext s input) d0 = upd_de s d0) by reflexivity.
  destruct res as [p| |e|]; [| | |contradiction].
  - pose proof (h_message_nu (upd_de s d) p clock) as Hnu. change (sv_de (upd_de s d)) with d in Hnu.
    destruct (h_message (upd_de s d) p clock) as [s1 r] eqn:Eh. cbn [fst] in Hnu. destruct r as [rs|e|].
    + assert (Hn1 : (nu (ext (sv_de s1) []) < f)%nat).
      { unfold get_next_message in Eg. apply loop_msg_cost in Eg. fold (ext (sv_de s) input) in Eg. rewrite ext_nil. lia. }
      destruct (IH s1 [] (acc ++ rs) Hn1) as [s' [seen [v [E1 E2]]]]. rewrite sext_nil in E2.
      exists s', seen, v. split; [exact E1|]. eapply sl_ok; [symmetry; exact Hg|rewrite Hupd; exact Eh|exact E2].
    + exists s1, acc, (VErr e). split; [reflexivity|]. eapply sl_herr; [symmetry; exact Hg|rewrite Hupd; exact Eh].
    + exists s1, acc, VPanic. split; [reflexivity|]. eapply sl_hpanic; [symmetry; exact Hg|rewrite Hupd; exact Eh].
  - exists (upd_de s d), acc, VOk. split; [reflexivity|]. rewrite <- (Hupd d). apply sl_none. symmetry. exact Hg.
  - exists (upd_de s d), acc, (VErr (SWire (WChunkDe e))). split; [reflexivity|]. rewrite <- (Hupd d). apply sl_err. symmetry. exact Hg.
Qed.

Lemma sloop_fun clock s acc s1 seen1 v1 : sloop clock s acc s1 seen1 v1 ->
  forall s2 seen2 v2, sloop clock s acc s2 seen2 v2 -> s1 = s2 /\ seen1 = seen2 /\ v1 = v2.
Proof.
  induction 1 as [s d acc Hg|s d e acc Hg|s d p s1 rs acc s' seen v Hg Hh D IH|s d p s1 e acc Hg Hh|s d p s1 acc Hg Hh];
    intros s2 seen2 v2 D2; inversion D2; subst;
    repeat match goal with
    | A : G (sv_de ?s) = _, B : G (sv_de ?s) = _ |- _ => rewrite A in B; inversion B; subst; clear B
    | A : h_message ?x ?p ?c = _, B : h_message ?x ?p ?c = _ |- _ => rewrite A in B; inversion B; subst; clear B
    end; try (repeat split; reflexivity); try discriminate.
  apply IH. assumption.
Qed.

(* only the deserializer's next result and the rest of the session matter *)
Lemma sloop_G_eq clock a b acc s' seen v :
  G (sv_de a) = G (sv_de b) -> (forall d, upd_de a d = upd_de b d) -> sloop clock b acc s' seen v -> sloop clock a acc s' seen v.
Proof.
  intros HG Hu D. inversion D; subst; rewrite <- HG in *; rewrite <- ?Hu in *.
  - apply sl_none. assumption.
  - apply sl_err. assumption.
  - eapply sl_ok; eassumption.
  - eapply sl_herr; eassumption.
  - eapply sl_hpanic; eassumption.
Qed.

(* a loop that ended quietly, then more bytes: the same as the loop with the bytes already there *)
Lemma sloop_ext_ok clock s acc s' seen : sloop clock s acc s' seen VOk ->
  forall x s'' seen'' v, sloop clock (sext s' x) seen s'' seen'' v -> sloop clock (sext s x) acc s'' seen'' v.
Proof.
  intros D. remember VOk as vk eqn:Ev.
  induction D as [s d acc Hg|s d e acc Hg|s d p s1 rs acc s' seen v Hg Hh D IH|s d p s1 e acc Hg Hh|s d p s1 acc Hg Hh]; try discriminate;
    intros x s'' seen'' v'' D2.
  - pose proof (G_ext (sv_de s) x) as He. rewrite Hg in He. destruct He as [He _].
    apply (sloop_G_eq clock (sext s x) (sext (upd_de s d) x)); [exact He|reflexivity|exact D2].
  - pose proof (G_ext (sv_de s) x) as He. rewrite Hg in He.
    pose proof (h_message_sext x (upd_de s d) p clock) as Hc. unfold commutes in Hc. rewrite Hh in Hc. cbn [fst snd] in Hc.
    eapply sl_ok; [exact He|exact Hc|]. apply IH; [exact Ev|exact D2].
Qed.

Lemma sloop_ext_bad clock s acc s' seen v : sloop clock s acc s' seen v -> v <> VOk ->
  forall x, sloop clock (sext s x) acc (sext s' x) seen v.
Proof.
  induction 1 as [s d acc Hg|s d e acc Hg|s d p s1 rs acc s' seen v Hg Hh D IH|s d p s1 e acc Hg Hh|s d p s1 acc Hg Hh]; intros Hv x;
    try contradiction.
  - pose proof (G_ext (sv_de s) x) as He. rewrite Hg in He. apply (sl_err clock (sext s x) (ext d x) e acc He).
  - pose proof (G_ext (sv_de s) x) as He. rewrite Hg in He.
    pose proof (h_message_sext x (upd_de s d) p clock) as Hc. unfold commutes in Hc. rewrite Hh in Hc. cbn [fst snd] in Hc.
    eapply sl_ok; [exact He|exact Hc|]. apply IH. exact Hv.
  - pose proof (G_ext (sv_de s) x) as He. rewrite Hg in He.
    pose proof (h_message_sext x (upd_de s d) p clock) as Hc. unfold commutes in Hc. rewrite Hh in Hc. cbn [fst snd] in Hc.
    eapply sl_herr; [exact He|exact Hc].
  - pose proof (G_ext (sv_de s) x) as He. rewrite Hg in He.
    pose proof (h_message_sext x (upd_de s d) p clock) as Hc. unfold commutes in Hc. rewrite Hh in Hc. cbn [fst snd] in Hc.
    eapply sl_hpanic; [exact He|exact Hc].
Qed.

(* ================================================================ Step A: events do not depend on serializer / acknowledgement state *)
(* the same session with another serializer, deserializer and acknowledgement counter *)
Definition with_io (s : server) (ser : sstate) (de : dstate) (a : ack_state) : server :=
  {| sv_ser := ser; sv_de := de; sv_app := sv_app s; sv_reqs := sv_reqs s; sv_next_req := sv_next_req s; sv_connected := sv_connected s;
     sv_fms := sv_fms s; sv_objenc := sv_objenc s; sv_streams := sv_streams s; sv_next_stream := sv_next_stream s; sv_ack := a |}.

Lemma same_core_with_io s s' : same_core s s' -> s' = with_io s (sv_ser s') (sv_de s') (sv_ack s').
Proof. intros [H1 [H2 [H3 [H4 [H5 [H6 [H7 H8]]]]]]]. destruct s, s'. cbn in *. subst. reflexivity. Qed.

Definition verdict_of (r : reply) : verdict := match r with ROk _ => VOk | RErr e => VErr e | RPanic => VPanic end.
Definition results_of (r : reply) : list sresult := match r with ROk rs => rs | _ => [] end.

(* two calls that differ only in serializer / deserializer-state-passed-through / counter: same events, same verdict, same core *)
Definition similar (c1 c2 : call) : Prop :=
  same_core (fst c1) (fst c2) /\ verdict_of (snd c1) = verdict_of (snd c2) /\ events (results_of (snd c1)) = events (results_of (snd c2)) /\
  (ser_ok (sv_ser (fst c1)) /\ ser_ok (sv_ser (fst c2))).

Lemma send_message_similar ser1 ser2 m ts sid f d : ser_ok ser1 -> ser_ok ser2 ->
  match send_message ser1 m ts sid f d, send_message ser2 m ts sid f d with
  | Ok (_, a), Ok (_, b) => ser_ok a /\ ser_ok b
  | Err e1, Err e2 => e1 = e2
  | _, _ => False
  end.
Proof.
  intros H1 H2. unfold send_message. pose proof (to_payload_total m) as Ht.
  destruct (to_payload m) as [[tid body]|e|x|]; try contradiction; [|reflexivity].
  set (msg := {| m_ts := ts; m_tid := tid; m_sid := sid; m_data := body |}).
  destruct (serialize_refused_or_ok ser1 msg f d H1) as [B1 O1]. destruct (serialize_refused_or_ok ser2 msg f d H2) as [B2 O2].
  destruct (16777215 <? lenN (m_data msg)) eqn:E.
  - rewrite (B1 ltac:(lia)), (B2 ltac:(lia)). reflexivity.
  - destruct (O1 ltac:(lia)) as [b1 [s1 [-> M1]]]. destruct (O2 ltac:(lia)) as [b2 [s2 [-> M2]]]. unfold ser_ok in *. split; lia.
Qed.

Lemma one_packet_similar s ser2 de2 a2 m ts sid f d : ser_ok (sv_ser s) -> ser_ok ser2 ->
  similar (one_packet s m ts sid f d) (one_packet (with_io s ser2 de2 a2) m ts sid f d).
Proof.
  intros H1 H2. unfold one_packet, sending. change (sv_ser (with_io s ser2 de2 a2)) with ser2.
  pose proof (send_message_similar (sv_ser s) ser2 m ts sid f d H1 H2) as H.
  destruct (send_message (sv_ser s) m ts sid f d) as [[b1 x1]|e1|y|], (send_message ser2 m ts sid f d) as [[b2 x2]|e2|y2|]; try contradiction.
  - destruct H as [Ha Hb]. repeat split; assumption.
  - subst. repeat split; assumption.
Qed.

Ltac sim_leaf := repeat split; try reflexivity; try assumption.
Ltac sim_step :=
  first [ progress cbn [sv_ser sv_de sv_app sv_reqs sv_next_req sv_connected sv_fms sv_objenc sv_streams sv_next_stream sv_ack with_io]
        | progress cbv beta iota
        | match goal with
          | |- similar (one_packet ?s _ _ _ _ _) (one_packet (with_io ?s _ _ _) _ _ _ _ _) => apply one_packet_similar; assumption
          | |- similar (match ?y with _ => _ end) (match ?y with _ => _ end) => destruct y
          | |- similar (if ?y then _ else _) (if ?y then _ else _) => destruct y
          | |- similar (_, _) (_, _) => sim_leaf
          end ].
Ltac sim_frame := cbv zeta; repeat sim_step.

Section Similar.
  Variables (s : server) (ser2 : sstate) (de2 : dstate) (a2 : ack_state).
  Hypothesis H1 : ser_ok (sv_ser s).
  Hypothesis H2 : ser_ok ser2.
  Let s2 := with_io s ser2 de2 a2.

  Lemma h_connect_similar tr obj : similar (h_connect s tr obj) (h_connect s2 tr obj).
  Proof. unfold s2, h_connect, new_request. sim_frame. Qed.
  Lemma h_close_or_delete_similar d args : similar (h_close_or_delete d s args) (h_close_or_delete d s2 args).
  Proof. unfold s2, h_close_or_delete. sim_frame. Qed.
  Lemma h_create_stream_similar tr clock : similar (h_create_stream s tr clock) (h_create_stream s2 tr clock).
  Proof.
    unfold s2, h_create_stream. cbv zeta. cbn [sv_next_stream sv_streams with_io].
    apply (one_packet_similar (upd_streams s (insert (sv_next_stream s) StCreated (sv_streams s)) (sv_next_stream s + 1)) ser2 de2 a2); assumption.
  Qed.
  Lemma h_publish_similar sid tr args clock : similar (h_publish s sid tr args clock) (h_publish s2 sid tr args clock).
  Proof. unfold s2, h_publish, new_request. sim_frame. Qed.
  Lemma h_play_similar sid tr args clock : similar (h_play s sid tr args clock) (h_play s2 sid tr args clock).
  Proof. unfold s2, h_play, new_request. sim_frame. Qed.
  Lemma h_data_similar vs sid : similar (h_data s vs sid) (h_data s2 vs sid).
  Proof. unfold s2, h_data, publishing_key. sim_frame. Qed.
  Lemma h_media_similar a d sid ts : similar (h_media a s d sid ts) (h_media a s2 d sid ts).
  Proof. unfold s2, h_media, publishing_key. sim_frame. Qed.

  Lemma if_similar (b : bool) (x1 x2 y1 y2 : call) : similar x1 x2 -> similar y1 y2 -> similar (if b then x1 else y1) (if b then x2 else y2).
  Proof. destruct b; auto. Qed.

  Lemma h_command_similar sid name tr obj args clock : similar (h_command s sid name tr obj args clock) (h_command s2 sid name tr obj args clock).
  Proof.
    unfold h_command.
    apply if_similar; [apply h_connect_similar|]. apply if_similar; [apply h_close_or_delete_similar|].
    apply if_similar; [apply h_create_stream_similar|]. apply if_similar; [apply h_close_or_delete_similar|].
    apply if_similar; [apply h_play_similar|]. apply if_similar; [apply h_publish_similar|]. unfold s2. sim_leaf.
  Qed.
End Similar.

(* what a message does to the deserializer is a function of the message alone *)
Definition de_after (p : msg) (d : dstate) : dstate :=
  match of_payload (m_tid p) (m_data p) with
  | Ok (MSetChunkSize n) => match de_set_max_chunk_size d n with Ok d' => d' | _ => d end
  | _ => d
  end.

Lemma h_message_de_after s p clock : sv_de (fst (h_message s p clock)) = de_after p (sv_de s).
Proof.
  unfold h_message, de_after. destruct (of_payload (m_tid p) (m_data p)) as [m|e|x|]; try reflexivity.
  destruct m as [t d|n|n|name tr obj args|vs|d|n|n lt|ev sid bl ts|d|n]; try reflexivity.
  - apply h_command_de.
  - apply h_data_de.
  - apply h_media_de.
  - destruct (de_set_max_chunk_size (sv_de s) n); reflexivity.
  - destruct ev; try reflexivity. apply one_packet_de.
  - apply h_media_de.
Qed.

Theorem h_message_similar s ser2 de2 a2 p clock : ser_ok (sv_ser s) -> ser_ok ser2 ->
  similar (h_message s p clock) (h_message (with_io s ser2 de2 a2) p clock).
Proof.
  intros H1 H2. unfold h_message. destruct (of_payload (m_tid p) (m_data p)) as [m|e|x|]; try solve [unfold similar; sim_leaf].
  destruct m as [t d|n|n|name tr obj args|vs|d|n|n lt|ev sid bl ts|d|n]; try solve [unfold similar; sim_leaf].
  - apply h_command_similar; assumption.
  - apply h_data_similar; assumption.
  - apply h_media_similar; assumption.
  - change (sv_de (with_io s ser2 de2 a2)) with de2. unfold de_set_max_chunk_size.
    destruct (_ || _); unfold similar; sim_leaf.
  - destruct ev; try solve [unfold similar; sim_leaf]. apply one_packet_similar; assumption.
  - apply h_media_similar; assumption.
Qed.

Lemma events_app a b : events (a ++ b) = events a ++ events b.
Proof. unfold events. apply flat_map_app. Qed.

(* the whole loop from two sessions with the same core and the same deserializer state: the same new events *)
Lemma sloop_similar clock a acc1 a' seen1 v : sloop clock a acc1 a' seen1 v ->
  forall b acc2, same_core a b -> sv_de b = sv_de a -> ser_ok (sv_ser a) -> ser_ok (sv_ser b) ->
  exists b' seen2 delta, sloop clock b acc2 b' seen2 v /\ same_core a' b' /\ sv_de b' = sv_de a' /\
                   events seen1 = events acc1 ++ delta /\ events seen2 = events acc2 ++ delta /\
                   ser_ok (sv_ser a') /\ ser_ok (sv_ser b').
Proof.
  induction 1 as [s d acc Hg|s d e acc Hg|s d p s1 rs acc s' seen v Hg Hh D IH|s d p s1 e acc Hg Hh|s d p s1 acc Hg Hh];
    intros b acc2 Hc Hd Ha Hb.
  - exists (upd_de b d), acc2, []. rewrite <- Hd in Hg. split; [apply sl_none; exact Hg|]. rewrite !app_nil_r. repeat split; try apply Hc; assumption.
  - exists (upd_de b d), acc2, []. rewrite <- Hd in Hg. split; [apply sl_err; exact Hg|]. rewrite !app_nil_r. repeat split; try apply Hc; assumption.
  - pose proof (same_core_with_io _ _ Hc) as Eb.
    assert (Eb2 : upd_de b d = with_io (upd_de s d) (sv_ser b) d (sv_ack b)) by (rewrite Eb; reflexivity).
    pose proof (h_message_similar (upd_de s d) (sv_ser b) d (sv_ack b) p clock Ha Hb) as Hs. rewrite <- Eb2, Hh in Hs.
    pose proof (h_message_de_after (upd_de b d) p clock) as Hd2. pose proof (h_message_de_after (upd_de s d) p clock) as Hd1. rewrite Hh in Hd1.
    destruct (h_message (upd_de b d) p clock) as [b1 r2] eqn:Eh2. destruct Hs as [Hc1 [Hv [Hev [Hs1 Hs2]]]]. cbn [fst snd] in *.
    destruct r2 as [rs2|e2|]; try discriminate. cbn [results_of] in Hev.
    destruct (IH b1 (acc2 ++ rs2) Hc1 ltac:(rewrite Hd1, Hd2; reflexivity) Hs1 Hs2) as [b' [seen2 [delta [D2 [R1 [R2 [R3 [R4 R5]]]]]]]].
    exists b', seen2, (events rs ++ delta). split; [rewrite <- Hd in Hg; eapply sl_ok; [exact Hg|exact Eh2|exact D2]|].
    split; [exact R1|]. split; [exact R2|]. split; [rewrite R3, events_app, <- app_assoc; reflexivity|].
    split; [rewrite R4, events_app, <- app_assoc, Hev; reflexivity|exact R5].
  - pose proof (same_core_with_io _ _ Hc) as Eb.
    assert (Eb2 : upd_de b d = with_io (upd_de s d) (sv_ser b) d (sv_ack b)) by (rewrite Eb; reflexivity).
    pose proof (h_message_similar (upd_de s d) (sv_ser b) d (sv_ack b) p clock Ha Hb) as Hs. rewrite <- Eb2, Hh in Hs.
    pose proof (h_message_de_after (upd_de b d) p clock) as Hd2. pose proof (h_message_de_after (upd_de s d) p clock) as Hd1. rewrite Hh in Hd1.
    destruct (h_message (upd_de b d) p clock) as [b1 r2] eqn:Eh2. destruct Hs as [Hc1 [Hv [Hev [Hs1 Hs2]]]]. cbn [fst snd] in *.
    destruct r2 as [rs2|e2|]; try discriminate. injection Hv as <-.
    exists b1, acc2, []. split; [rewrite <- Hd in Hg; eapply sl_herr; [exact Hg|exact Eh2]|]. rewrite !app_nil_r.
    repeat split; try apply Hc1; try assumption. rewrite Hd1, Hd2. reflexivity.
  - pose proof (same_core_with_io _ _ Hc) as Eb.
    assert (Eb2 : upd_de b d = with_io (upd_de s d) (sv_ser b) d (sv_ack b)) by (rewrite Eb; reflexivity).
    pose proof (h_message_similar (upd_de s d) (sv_ser b) d (sv_ack b) p clock Ha Hb) as Hs. rewrite <- Eb2, Hh in Hs.
    pose proof (h_message_de_after (upd_de b d) p clock) as Hd2. pose proof (h_message_de_after (upd_de s d) p clock) as Hd1. rewrite Hh in Hd1.
    destruct (h_message (upd_de b d) p clock) as [b1 r2] eqn:Eh2. destruct Hs as [Hc1 [Hv [Hev [Hs1 Hs2]]]]. cbn [fst snd] in *.
    destruct r2 as [rs2|e2|]; try discriminate.
    exists b1, acc2, []. split; [rewrite <- Hd in Hg; eapply sl_hpanic; [exact Hg|exact Eh2]|]. rewrite !app_nil_r.
    repeat split; try apply Hc1; try assumption. rewrite Hd1, Hd2. reflexivity.
Qed.

(* ================================================================ histories of handle_input calls *)
Lemma sloop_quiescent clock s acc s' seen : sloop clock s acc s' seen VOk -> G (sv_de s') = (sv_de s', DNone).
Proof.
  intros D. remember VOk as vk eqn:Ev.
  induction D as [s d acc Hg|s d e acc Hg|s d p s1 rs acc s' seen v Hg Hh D IH|s d p s1 e acc Hg Hh|s d p s1 acc Hg Hh]; try discriminate.
  - pose proof (G_ext (sv_de s) []) as He. rewrite Hg in He. destruct He as [_ Hb]. cbn [sv_de upd_de]. apply G_blocked. exact Hb.
  - apply IH. exact Ev.
Qed.

(* the acknowledgement-free reference: the message loop alone, call after call; acc accumulates every result *)
Inductive pfeeds (clock : N) : server -> list bytes -> list sresult -> server -> list sresult -> verdict -> Prop :=
| pf_nil s acc : pfeeds clock s [] acc s acc VOk
| pf_ok s p r acc s1 seen1 s' seen v :
    sloop clock (sext s p) acc s1 seen1 VOk -> pfeeds clock s1 r seen1 s' seen v -> pfeeds clock s (p :: r) acc s' seen v
| pf_bad s p r acc s1 seen1 v : sloop clock (sext s p) acc s1 seen1 v -> v <> VOk -> pfeeds clock s (p :: r) acc s1 seen1 v.

Theorem pfeeds_whole clock pieces : forall s acc s' seen v,
  G (sv_de s) = (sv_de s, DNone) -> pfeeds clock s pieces acc s' seen v ->
  exists s'', sloop clock (sext s (concat pieces)) acc s'' seen v /\ (v = VOk -> s'' = s').
Proof.
  induction pieces as [|p r IH]; intros s acc s' seen v Hq F.
  - inversion F as [a b| |]; subst. cbn [concat]. rewrite sext_nil. exists (upd_de s' (sv_de s')).
    split; [apply sl_none; exact Hq|]. intros _. destruct s'; reflexivity.
  - inversion F as [|a b c d s1 seen1 e f g D1 F2|a b c d s1 seen1 g D1 Hv]; subst; cbn [concat]; rewrite <- sext_sext.
    + destruct (IH s1 seen1 s' seen v (sloop_quiescent _ _ _ _ _ D1) F2) as [s'' [D2 K]].
      exists s''. split; [apply (sloop_ext_ok clock _ _ _ _ D1); exact D2|exact K].
    + eexists. split; [apply (sloop_ext_bad clock _ _ _ _ _ D1 Hv)|]. intros ->. contradiction.
Qed.

Theorem pfeeds_partition_independent clock s p1 p2 acc s1 seen1 v1 s2 seen2 v2 :
  G (sv_de s) = (sv_de s, DNone) -> concat p1 = concat p2 ->
  pfeeds clock s p1 acc s1 seen1 v1 -> pfeeds clock s p2 acc s2 seen2 v2 -> seen1 = seen2 /\ v1 = v2 /\ (v1 = VOk -> s1 = s2).
Proof.
  intros Hq Hc F1 F2.
  destruct (pfeeds_whole clock p1 s acc s1 seen1 v1 Hq F1) as [sa [Da Ka]].
  destruct (pfeeds_whole clock p2 s acc s2 seen2 v2 Hq F2) as [sb [Db Kb]]. rewrite Hc in Da.
  destruct (sloop_fun clock _ _ _ _ _ Da _ _ _ Db) as [Hs [H1 H2]]. split; [exact H1|]. split; [exact H2|].
  intros Hv. rewrite <- (Ka Hv), <- (Kb ltac:(rewrite <- H2; exact Hv)). exact Hs.
Qed.

Lemma ack_send_ok ser n clock : ser_ok ser ->
  exists b ser', send_message ser (MAcknowledgement n) clock 0 false false = Ok (b, ser') /\ ser_ok ser'.
Proof.
  intros Hs. unfold send_message.
  change (to_payload (MAcknowledgement n)) with (@Ok (N * bytes) msg_ser_err (TID_Acknowledgement, be32 n)). cbv iota beta.
  destruct (serialize_refused_or_ok ser {| m_ts := clock; m_tid := TID_Acknowledgement; m_sid := 0; m_data := be32 n |} false false Hs) as [_ Hok].
  destruct (Hok ltac:(cbn [m_data]; change (lenN (be32 n)) with 4; lia)) as [b [ser' [E Hm]]].
  exists b, ser'. rewrite E. split; [reflexivity|]. unfold ser_ok in *. lia.
Qed.

(* the executable history: handle_input call after call, stopping at the first call that fails; evs = events delivered *)
Fixpoint feed_server (s : server) (pieces : list bytes) (clock : N) (evs : list sevent) : server * list sevent * verdict :=
  match pieces with
  | [] => (s, evs, VOk)
  | p :: r =>
    match server_handle_input s p clock with
    | (s', ROk rs) => feed_server s' r clock (evs ++ events rs)
    | (s', RErr e) => (s', evs, VErr e)
    | (s', RPanic) => (s', evs, VPanic)
    end
  end.

(* one real call against one reference call (the message loop alone on a session with the same core and deserializer) *)
Lemma handle_input_vs_loop clock s p t acc :
  ser_ok (sv_ser s) -> ser_ok (sv_ser t) -> same_core s t -> sv_de t = sv_de s ->
  exists s' seen v t' seen2,
    server_handle_input s p clock = (s', reply_of seen v) /\
    sloop clock (sext t p) acc t' seen2 v /\ same_core s' t' /\ sv_de t' = sv_de s' /\
    events seen2 = events acc ++ events seen /\ ser_ok (sv_ser s') /\ ser_ok (sv_ser t').
Proof.
  intros Hs Ht Hc Hd. unfold server_handle_input.
  assert (Hf : forall s0, sv_de s0 = sv_de s -> (nu (ext (sv_de s0) p) < S (S (length (d_buf (sv_de s)) + length p)))%nat).
  { intros s0 ->. unfold nu, ext. cbn [d_buf d_stage set_buf]. rewrite app_length. destruct (d_stage (sv_de s)); cbn [pending]; lia. }
  assert (Main : forall sm acc0, same_core sm t -> sv_de sm = sv_de s -> ser_ok (sv_ser sm) -> events acc0 = [] ->
            exists s' seen v t' seen2,
              h_loop (S (S (length (d_buf (sv_de s)) + length p))) sm p clock acc0 = (s', reply_of seen v) /\
              sloop clock (sext t p) acc t' seen2 v /\ same_core s' t' /\ sv_de t' = sv_de s' /\
              events seen2 = events acc ++ events seen /\ ser_ok (sv_ser s') /\ ser_ok (sv_ser t')).
  { intros sm acc0 Hcm Hdm Hsm He0.
    destruct (h_loop_sound clock _ sm p acc0 (Hf sm Hdm)) as [s' [seen [v [E1 D1]]]].
    assert (Hc2 : same_core (sext sm p) (sext t p)) by exact Hcm.
    assert (Hd2 : sv_de (sext t p) = sv_de (sext sm p)) by (cbn [sext sv_de upd_de]; rewrite Hd, Hdm; reflexivity).
    destruct (sloop_similar clock _ _ _ _ _ D1 (sext t p) acc Hc2 Hd2 Hsm Ht) as [t' [seen2 [delta [D2 [C2 [De2 [Ev1 [Ev2 [S1 S2]]]]]]]]].
    exists s', seen, v, t', seen2. rewrite He0 in Ev1. cbn [app] in Ev1.
    split; [exact E1|]. split; [exact D2|]. split; [exact C2|]. split; [exact De2|]. split; [rewrite Ev1; exact Ev2|]. split; assumption. }
  destruct (ack_step (sv_ack s) (lenN p)) as [a [n|]].
  - destruct (ack_send_ok (sv_ser s) n clock Hs) as [b [ser' [E Hser']]]. rewrite E.
    apply (Main (upd_ack (upd_ser s ser') a) [SPacket b false]); [exact Hc|reflexivity|exact Hser'|reflexivity].
  - apply (Main (upd_ack s a) []); [exact Hc|reflexivity|exact Hs|reflexivity].
Qed.

(* a real history against the reference history *)
Lemma feed_server_vs_pfeeds clock pieces : forall s t evs acc,
  ser_ok (sv_ser s) -> ser_ok (sv_ser t) -> same_core s t -> sv_de t = sv_de s -> evs = events acc ->
  exists t' seen, pfeeds clock t pieces acc t' seen (snd (feed_server s pieces clock evs)) /\
    exists dropped, events seen = snd (fst (feed_server s pieces clock evs)) ++ dropped /\
                    (snd (feed_server s pieces clock evs) = VOk -> dropped = [] /\ same_core (fst (fst (feed_server s pieces clock evs))) t').
Proof.
  induction pieces as [|p r IH]; intros s t evs acc Hs Ht Hc Hd He.
  - exists t, acc. cbn [feed_server fst snd]. split; [apply pf_nil|]. exists []. rewrite app_nil_r. split; [symmetry; exact He|]. intros _. split; [reflexivity|exact Hc].
  - cbn [feed_server].
    destruct (handle_input_vs_loop clock s p t acc Hs Ht Hc Hd) as [s' [seen [v [t' [seen2 [E [D [C2 [D2 [Ev [S1 S2]]]]]]]]]]].
    rewrite E. destruct v as [|e|]; cbn [reply_of].
    + destruct (IH s' t' (evs ++ events seen) seen2 S1 S2 C2 D2 ltac:(rewrite Ev, He; reflexivity)) as [t'' [seenF [F R]]].
      exists t'', seenF. split; [eapply pf_ok; [exact D|exact F]|exact R].
    + exists t', seen2. cbn [fst snd]. split; [apply pf_bad; [exact D|discriminate]|].
      exists (events seen). split; [rewrite Ev, He; reflexivity|discriminate].
    + exists t', seen2. cbn [fst snd]. split; [apply pf_bad; [exact D|discriminate]|].
      exists (events seen). split; [rewrite Ev, He; reflexivity|discriminate].
Qed.

(* C15 for the server session: any two partitions of the same byte stream, fed call after call to a quiescent session,
   give the same verdict (completed / the same error at the same message); when the stream is accepted they raise exactly the
   same events and end in the same protocol state; when it is rejected, what either partition delivered before the failing call
   is a prefix of one common event sequence (the events of the messages before the failing one) *)
Theorem server_partition_independent s p1 p2 clock :
  ser_ok (sv_ser s) -> G (sv_de s) = (sv_de s, DNone) -> concat p1 = concat p2 ->
  let r1 := feed_server s p1 clock [] in
  let r2 := feed_server s p2 clock [] in
  snd r1 = snd r2 /\
  (exists common d1 d2, common = snd (fst r1) ++ d1 /\ common = snd (fst r2) ++ d2 /\
     (snd r1 = VOk -> d1 = [] /\ d2 = [] /\ same_core (fst (fst r1)) (fst (fst r2)))).
Proof.
  intros Hs Hq Hc r1 r2.
  destruct (feed_server_vs_pfeeds clock p1 s s [] [] Hs Hs (same_core_refl s) eq_refl eq_refl) as [t1 [seen1 [F1 [dr1 [E1 K1]]]]].
  destruct (feed_server_vs_pfeeds clock p2 s s [] [] Hs Hs (same_core_refl s) eq_refl eq_refl) as [t2 [seen2 [F2 [dr2 [E2 K2]]]]].
  fold r1 in F1, E1, K1. fold r2 in F2, E2, K2.
  destruct (pfeeds_partition_independent clock s p1 p2 [] t1 seen1 (snd r1) t2 seen2 (snd r2) Hq Hc F1 F2) as [Hseen [Hv Hst]].
  split; [exact Hv|]. exists (events seen1), dr1, dr2. split; [exact E1|]. split; [rewrite Hseen; exact E2|].
  intros Hok. destruct (K1 Hok) as [Z1 C1]. specialize (Hst Hok). rewrite Hv in Hok. destruct (K2 Hok) as [Z2 C2].
  split; [exact Z1|]. split; [exact Z2|]. subst t2.
  destruct C1 as [A1 [A2 [A3 [A4 [A5 [A6 [A7 A8]]]]]]]. destruct C2 as [B1 [B2 [B3 [B4 [B5 [B6 [B7 B8]]]]]]].
  unfold same_core. repeat split; congruence.
Qed.
