(* C12, truncation clause: a truncated conformant encoding is either rejected or decoded to a prefix of what was encoded -
   never to data that was not there.  "Prefix" is structural: the decoder ends a strict array early at end of input by design,
   so the last array reached may be cut, recursively in its last element; scalars, strings and objects are never cut. *)
From Coq Require Import ZArith Lia ZifyN ZifyBool ZifyNat.
From RML Require Import Model.Base Model.Utf8 Model.Amf0 Gen.Consts Spec.Amf0Spec Spec.Amf0Wire Proofs.BaseProofs Proofs.Amf0Proofs.
Ltac Zify.zify_post_hook ::= Z.div_mod_to_equations.
Local Open Scope N_scope.

Inductive vprefix : value -> value -> Prop :=
| vp_refl v : vprefix v v
| vp_last pre x' x rest : vprefix x' x -> vprefix (VStrictArray (pre ++ [x'])) (VStrictArray (pre ++ x :: rest))
| vp_cut pre rest : vprefix (VStrictArray pre) (VStrictArray (pre ++ rest)).

(* a list of values cut the same way: whole leading elements, then possibly one cut element *)
Inductive lprefix : list value -> list value -> Prop :=
| lp_cut pre rest : lprefix pre (pre ++ rest)
| lp_last pre x' x rest : vprefix x' x -> lprefix (pre ++ [x']) (pre ++ x :: rest).

Lemma lprefix_cons v a b : lprefix a b -> lprefix (v :: a) (v :: b).
Proof.
  intros H. destruct H as [pre rest|pre x' x rest Hx].
  - apply (lp_cut (v :: pre) rest).
  - apply (lp_last (v :: pre) x' x rest Hx).
Qed.

Lemma lprefix_array a b : lprefix a b -> vprefix (VStrictArray a) (VStrictArray b).
Proof. intros H. destruct H as [pre rest|pre x' x rest Hx]; [apply vp_cut|apply vp_last; exact Hx]. Qed.

Lemma take_n_short (l : bytes) : forall n, lenN l < n -> take_n l n = None.
Proof.
  induction l as [|x l IH]; intros n H; cbn [take_n].
  - change (lenN (@nil N)) with 0 in H. destruct (n =? 0) eqn:E; [lia|reflexivity].
  - rewrite lenN_cons in H. destruct (n =? 0) eqn:E; [lia|]. rewrite IH by lia. reflexivity.
Qed.

Lemma lenN_app_lt (p q a : bytes) : p ++ q = a -> q <> [] -> lenN p < lenN a.
Proof. intros <- Hq. rewrite lenN_app. destruct q; [contradiction|]. rewrite lenN_cons. lia. Qed.

(* p is a prefix of a ++ b: it ends inside a, or it contains a *)
Lemma prefix_split (p q a b : bytes) : p ++ q = a ++ b ->
  (exists a2, a = p ++ a2 /\ q = a2 ++ b /\ a2 <> []) \/ (exists p2, p = a ++ p2 /\ b = p2 ++ q).
Proof.
  revert a. induction p as [|x p IH]; intros a H.
  - cbn [app] in H. destruct a as [|y a].
    + right. exists []. split; [reflexivity|exact (eq_sym H)].
    + left. exists (y :: a). split; [reflexivity|]. split; [exact H|discriminate].
  - destruct a as [|y a].
    + right. exists (x :: p). split; [reflexivity|]. cbn [app] in H. exact (eq_sym H).
    + cbn [app] in H. injection H as <- H. destruct (IH a H) as [[a2 [E1 [E2 E3]]]|[p2 [E1 E2]]].
      * left. exists a2. subst. repeat split; assumption.
      * right. exists p2. subst. split; reflexivity.
Qed.

Definition good_cut (r : res (option value * bytes)) (p : bytes) (w : wire) : Prop :=
  match r with
  | Ok (None, rest) => p = [] /\ rest = []
  | Ok (Some v, rest) => rest = [] /\ vprefix v (wire_value w)
  | Err _ => True
  | _ => False
  end.

Definition Q_value (f : nat) : Prop :=
  forall w p q, (length p < f)%nat -> wire_ok w -> wire_bytes w = p ++ q -> q <> [] ->
    good_cut (read_next_value f p) p w.
Definition Q_props (f : nat) : Prop :=
  forall ps p q acc, (length p < f)%nat -> wire_props_ok ps ->
    wire_props_bytes ps ++ [0; 0; 9] = p ++ q -> q <> [] -> exists e, read_props f p acc = Err e.
Definition Q_elems (f : nat) : Prop :=
  forall ws p q acc, (length p + 1 < f)%nat -> wire_elems_ok ws -> lenN ws < 4294967296 ->
    wire_elems_bytes ws = p ++ q -> q <> [] ->
    match read_array f (lenN ws) p acc with
    | Ok (vs, rest) => rest = [] /\ exists vs', vs = rev acc ++ vs' /\ lprefix vs' (map wire_value ws)
    | Err _ => True
    | _ => False
    end.

Ltac mk := unfold NUMBER_MARKER, BOOLEAN_MARKER, STRING_MARKER, OBJECT_MARKER, NULL_MARKER, UNDEFINED_MARKER,
         ECMA_ARRAY_MARKER, OBJECT_END_MARKER, STRICT_ARRAY_MARKER, UTF_8_EMPTY_MARKER in *.

Ltac eqbs :=
  repeat match goal with
  | |- context [N.eqb ?a ?b] =>
      let v := eval vm_compute in (N.eqb a b) in
      lazymatch v with
      | true => change (N.eqb a b) with true
      | false => change (N.eqb a b) with false
      end
  end; cbv iota.

Lemma step_Qvalue f : Q_value f -> Q_props f -> Q_elems f -> Q_value (S f).
Proof.
  intros HV HP HE w p q Hlen Hok Hsplit Hq.
  destruct p as [|m p'].
  - cbn [read_next_value good_cut]. split; reflexivity.
  - destruct w as [b|b|s|ps|c ps|ws| |].
    + (* number *)
      cbn [wire_bytes app] in Hsplit. injection Hsplit as <- Hs. cbn [read_next_value]. mk. eqbs.
      rewrite (take_n_short p' 8); [exact I|]. pose proof (lenN_app_lt p' q (be64 b) (eq_sym Hs) Hq) as H. change (lenN (be64 b)) with 8 in H. exact H.
    + (* boolean *)
      cbn [wire_bytes app] in Hsplit. injection Hsplit as <- Hs. cbn [read_next_value]. mk. eqbs.
      destruct p' as [|y p'']; [exact I|]. cbn [app] in Hs. injection Hs as _ Hs. destruct p''; [|discriminate]. cbn [app] in Hs. subst q. contradiction.
    + (* string *)
      cbn [wire_bytes app] in Hsplit. injection Hsplit as <- Hs. cbn [read_next_value]. mk. eqbs.
      cbn [wire_ok] in Hok. destruct Hok as [Hl Hu].
      destruct (prefix_split p' q (be16 (lenN s)) s (eq_sym Hs)) as [[a2 [E1 [E2 E3]]]|[p2 [E1 E2]]].
      * rewrite (take_n_short p' 2); [exact I|]. pose proof (lenN_app_lt p' a2 _ (eq_sym E1) E3) as H. change (lenN (be16 (lenN s))) with 2 in H. exact H.
      * subst p'. rewrite (take_n_app_len (be16 (lenN s)) p2 2) by reflexivity. rewrite of_be_be16 by lia.
        rewrite (take_n_short p2 (lenN s)); [exact I|]. apply (lenN_app_lt p2 q s (eq_sym E2) Hq).
    + (* object *)
      rewrite wire_bytes_object in *. apply wire_ok_object in Hok. cbn [app] in Hsplit. injection Hsplit as <- Hs.
      cbn [read_next_value]. mk. eqbs.
      destruct (HP ps p' q [] ltac:(cbn [length] in Hlen; lia) Hok Hs Hq) as [e He].
      rewrite He. exact I.
    + (* ecma array *)
      rewrite wire_bytes_ecma in *. apply wire_ok_ecma in Hok. destruct Hok as [Hc Hok]. cbn [app] in Hsplit. injection Hsplit as <- Hs.
      cbn [read_next_value]. mk. eqbs.
      destruct (prefix_split p' q (be32 c) _ (eq_sym Hs)) as [[a2 [E1 [E2 E3]]]|[p2 [E1 E2]]].
      * rewrite (take_n_short p' 4); [exact I|]. pose proof (lenN_app_lt p' a2 _ (eq_sym E1) E3) as H. change (lenN (be32 c)) with 4 in H. exact H.
      * subst p'. rewrite (take_n_app_len (be32 c) p2 4) by reflexivity.
        destruct (HP ps p2 q [] ltac:(cbn [length] in Hlen; rewrite app_length, length_be32 in Hlen; lia) Hok E2 Hq) as [e He].
        rewrite He. exact I.
    + (* strict array *)
      rewrite wire_bytes_array in *. apply wire_ok_array in Hok. destruct Hok as [Hc Hok]. cbn [app] in Hsplit. injection Hsplit as <- Hs.
      cbn [read_next_value]. mk. eqbs.
      destruct (prefix_split p' q (be32 (lenN ws)) _ (eq_sym Hs)) as [[a2 [E1 [E2 E3]]]|[p2 [E1 E2]]].
      * rewrite (take_n_short p' 4); [exact I|]. pose proof (lenN_app_lt p' a2 _ (eq_sym E1) E3) as H. change (lenN (be32 (lenN ws))) with 4 in H. exact H.
      * subst p'. rewrite (take_n_app_len (be32 (lenN ws)) p2 4) by reflexivity. rewrite of_be_be32 by assumption.
        pose proof (HE ws p2 q [] ltac:(cbn [length] in Hlen; rewrite app_length, length_be32 in Hlen; lia) Hok Hc E2 Hq) as H.
        destruct (read_array f (lenN ws) p2 []) as [[vs rest]|e|x|]; try contradiction; [|exact I].
        destruct H as [-> [vs' [-> Hl]]]. cbn [obind good_cut rev app wire_value]. split; [reflexivity|apply lprefix_array; exact Hl].
    + cbn [wire_bytes app] in Hsplit. injection Hsplit as _ Hs. destruct p'; [cbn [app] in Hs; subst q; contradiction|discriminate].
    + cbn [wire_bytes app] in Hsplit. injection Hsplit as _ Hs. destruct p'; [cbn [app] in Hs; subst q; contradiction|discriminate].
Qed.

Lemma step_Qprops f : Q_value f -> Q_props f -> Q_props (S f).
Proof.
  intros HV HP ps p q acc Hlen Hok Hsplit Hq.
  destruct (decode_all_P f) as [PV _].
  destruct ps as [|[name pw] r].
  - cbn [wire_props_bytes app] in Hsplit. cbn [read_props].
    destruct p as [|a p1]; [eexists; reflexivity|]. cbn [app] in Hsplit. injection Hsplit as <- Hs.
    destruct p1 as [|b p2]; [eexists; reflexivity|]. cbn [app] in Hs. injection Hs as <- Hs.
    destruct p2 as [|c p3].
    + cbn [take_n]. eqbs. change (of_be [0; 0] =? 0) with true. cbv iota. eexists; reflexivity.
    + cbn [app] in Hs. injection Hs as _ Hs. destruct p3; [cbn [app] in Hs; subst q; contradiction|discriminate].
  - cbn [wire_props_bytes wire_props_ok] in *. destruct Hok as [[Hn Hu] [Hw Hr]].
    cbn [read_props]. rewrite <- !app_assoc in Hsplit.
    assert (Hnl : (1 <= length name)%nat) by (unfold lenN in Hn; lia).
    pose proof (wire_bytes_nonempty pw) as Hpw.
    destruct (prefix_split p q (be16 (lenN name)) _ (eq_sym Hsplit)) as [[a2 [E1 [E2 E3]]]|[p2 [E1 E2]]].
    { rewrite (take_n_short p 2); [eexists; reflexivity|]. pose proof (lenN_app_lt p a2 _ (eq_sym E1) E3) as H. change (lenN (be16 (lenN name))) with 2 in H. exact H. }
    subst p. rewrite app_length, length_be16 in Hlen. rewrite (take_n_app_len (be16 (lenN name)) p2 2) by reflexivity. rewrite of_be_be16 by lia.
    destruct (lenN name =? 0) eqn:E; [lia|].
    destruct (prefix_split p2 q name _ (eq_sym E2)) as [[a3 [F1 [F2 F3]]]|[p3 [F1 F2]]].
    { rewrite (take_n_short p2 (lenN name)); [eexists; reflexivity|]. apply (lenN_app_lt p2 a3 name (eq_sym F1) F3). }
    subst p2. rewrite app_length in Hlen. rewrite take_n_app. rewrite Hu.
    destruct (prefix_split p3 q (wire_bytes pw) _ (eq_sym F2)) as [[a4 [G1 [G2 G3]]]|[p4 [G1 G2]]].
    + (* the cut is inside the property's value *)
      pose proof (HV pw p3 a4 ltac:(lia) Hw G1 G3) as H. unfold good_cut in H.
      destruct (read_next_value f p3) as [[[v|] rest]|e|x|]; try contradiction; cbn [obind].
      * destruct H as [-> _]. destruct f as [|f']; [lia|]. cbn [read_props take_n]. eqbs. eexists; reflexivity.
      * eexists; reflexivity.
      * eexists; reflexivity.
    + (* the value is complete; the cut is further on *)
      subst p3. rewrite app_length in Hlen. rewrite (PV pw p4 ltac:(lia) Hw). cbn [obind].
      apply (HP r p4 q _ ltac:(lia) Hr G2 Hq).
Qed.

Lemma step_Qelems f : Q_value f -> Q_elems f -> Q_elems (S f).
Proof.
  intros HV HE ws p q acc Hlen Hok Hc Hsplit Hq.
  destruct (decode_all_P f) as [PV _].
  destruct ws as [|x r].
  - cbn [wire_elems_bytes] in Hsplit. destruct p; [cbn [app] in Hsplit; subst q; contradiction|discriminate].
  - cbn [wire_elems_bytes wire_elems_ok] in *. destruct Hok as [Hx Hr].
    cbn [read_array]. rewrite lenN_cons in *. destruct (lenN r + 1 =? 0) eqn:E; [lia|].
    pose proof (wire_bytes_nonempty x) as Hpw.
    replace (lenN r + 1 - 1) with (lenN r) by lia.
    destruct (prefix_split p q (wire_bytes x) _ (eq_sym Hsplit)) as [[a2 [E1 [E2 E3]]]|[p2 [E1 E2]]].
    + (* the cut is inside this element *)
      pose proof (HV x p a2 ltac:(lia) Hx E1 E3) as H. unfold good_cut in H.
      assert (Hp : p = [] \/ (1 <= length p)%nat) by (destruct p; [left; reflexivity|right; cbn [length]; lia]).
      destruct Hp as [-> | Hp].
      { destruct f as [|f']; [lia|]. cbn [read_next_value obind]. split; [reflexivity|]. exists []. split; [rewrite app_nil_r; reflexivity|apply (lp_cut [] _)]. }
      destruct (read_next_value f p) as [[[v|] rest]|e|y|]; try contradiction; cbn [obind]; [| |exact I].
      * destruct H as [-> Hv]. destruct f as [|f']; [lia|]. cbn [read_array].
        assert (Hres : lprefix [v] (map wire_value (x :: r))) by (apply (lp_last [] v (wire_value x) (map wire_value r) Hv)).
        destruct (lenN r =? 0).
        -- split; [reflexivity|]. exists [v]. split; [reflexivity|exact Hres].
        -- destruct f' as [|f'']; [lia|]. cbn [read_next_value obind]. split; [reflexivity|]. exists [v]. split; [reflexivity|exact Hres].
      * destruct H as [-> ->]. split; [reflexivity|]. exists []. split; [rewrite app_nil_r; reflexivity|apply (lp_cut [] _)].
    + (* this element is complete *)
      subst p. rewrite app_length in Hlen. rewrite (PV x p2 ltac:(lia) Hx). cbn [obind].
      destruct r as [|x2 r2].
      * cbn [wire_elems_bytes] in E2. destruct p2; [cbn [app] in E2; subst q; contradiction|discriminate].
      * pose proof (HE (x2 :: r2) p2 q (wire_value x :: acc) ltac:(lia) Hr ltac:(lia) E2 Hq) as H.
        destruct (read_array f (lenN (x2 :: r2)) p2 (wire_value x :: acc)) as [[vs rest]|e|y|]; try contradiction; [|exact I].
        destruct H as [-> [vs' [-> Hl]]]. split; [reflexivity|]. exists (wire_value x :: vs'). split.
        -- cbn [rev]. rewrite <- app_assoc. reflexivity.
        -- cbn [map]. apply lprefix_cons. exact Hl.
Qed.

Lemma trunc_all f : Q_value f /\ Q_props f /\ Q_elems f.
Proof.
  induction f as [|f [HV [HP HE]]].
  - repeat split.
    + intros w p q H. lia.
    + intros ps p q acc H. lia.
    + intros ws p q acc H. lia.
  - split; [apply step_Qvalue; assumption|]. split; [apply step_Qprops; assumption|apply step_Qelems; assumption].
Qed.

(* the top-level loop on a truncated sequence of encodings *)
Lemma read_all_truncated ws : forall f p q acc,
  wire_elems_ok ws -> (length p < f)%nat -> wire_elems_bytes ws = p ++ q -> q <> [] ->
  match read_all f p acc with
  | Ok (vs, rest) => rest = [] /\ exists vs', vs = rev acc ++ vs' /\ lprefix vs' (map wire_value ws)
  | Err _ => True
  | _ => False
  end.
Proof.
  induction ws as [|w r IH]; intros f p q acc Hok Hf Hsplit Hq.
  - cbn [wire_elems_bytes] in Hsplit. destruct p; [cbn [app] in Hsplit; subst q; contradiction|discriminate].
  - destruct f as [|f]; [lia|].
    cbn [wire_elems_bytes wire_elems_ok] in *. destruct Hok as [Hw Hr]. cbn [read_all].
    destruct (prefix_split p q (wire_bytes w) _ (eq_sym Hsplit)) as [[a2 [E1 [E2 E3]]]|[p2 [E1 E2]]].
    + pose proof (proj1 (trunc_all (S (length p))) w p a2 ltac:(lia) Hw E1 E3) as H. unfold good_cut in H.
      assert (Hp : p = [] \/ (1 <= length p)%nat) by (destruct p; [left; reflexivity|right; cbn [length]; lia]).
      destruct Hp as [-> | Hp].
      { cbn [length read_next_value obind]. split; [reflexivity|]. exists []. split; [rewrite app_nil_r; reflexivity|apply (lp_cut [] _)]. }
      destruct (read_next_value (S (length p)) p) as [[[v|] rest]|e|y|]; try contradiction; cbn [obind]; [| |exact I].
      * destruct H as [-> Hv].
        assert (Hres : lprefix [v] (map wire_value (w :: r))) by (apply (lp_last [] v (wire_value w) (map wire_value r) Hv)).
        destruct f as [|f']; [lia|]. cbn [read_all length read_next_value obind].
        split; [reflexivity|]. exists [v]. split; [reflexivity|exact Hres].
      * destruct H as [-> ->]. split; [reflexivity|]. exists []. split; [rewrite app_nil_r; reflexivity|apply (lp_cut [] _)].
    + subst p. rewrite decode_complete_value; [|assumption|rewrite app_length; lia]. cbn [obind].
      destruct r as [|w2 r2].
      * cbn [wire_elems_bytes] in E2. destruct p2; [cbn [app] in E2; subst q; contradiction|discriminate].
      * pose proof (wire_bytes_nonempty w) as Hnw. rewrite app_length in Hf.
        pose proof (IH f p2 q (wire_value w :: acc) Hr ltac:(lia) E2 Hq) as H.
        destruct (read_all f p2 (wire_value w :: acc)) as [[vs rest]|e|y|]; try contradiction; [|exact I].
        destruct H as [-> [vs' [-> Hl]]]. split; [reflexivity|]. exists (wire_value w :: vs'). split.
        -- cbn [rev]. rewrite <- app_assoc. reflexivity.
        -- cbn [map]. apply lprefix_cons. exact Hl.
Qed.

(* C12: every truncation point of every conformant encoding of a value sequence *)
Theorem truncated_conformant ws p q :
  wire_elems_ok ws -> wire_elems_bytes ws = p ++ q -> q <> [] ->
  match deserialize p with
  | Ok vs' => lprefix vs' (map wire_value ws)
  | Err _ => True
  | _ => False
  end.
Proof.
  intros Hok Hs Hq. unfold deserialize, deserialize_rest.
  pose proof (read_all_truncated ws (S (length p)) p q [] Hok ltac:(lia) Hs Hq) as H.
  destruct (read_all (S (length p)) p []) as [[vs rest]|e|y|]; try contradiction; [|exact I].
  destruct H as [_ [vs' [-> Hl]]]. cbn [obind rev app]. exact Hl.
Qed.

(* ... and of what the library's own encoder writes *)
Theorem truncated_own_encoding vs bs p q :
  wf_values vs -> serialize vs = Ok bs -> bs = p ++ q -> q <> [] ->
  match deserialize p with
  | Ok vs' => lprefix vs' vs
  | Err _ => True
  | _ => False
  end.
Proof.
  intros Hwf E Hs Hq. destruct (encode_values_wire vs Hwf) as [H1 H2].
  destruct (expressible_all vs) eqn:Ex.
  - destruct (H1 eq_refl) as [E' Hok]. unfold serialize in E. rewrite E in E'. injection E' as ->.
    pose proof (truncated_conformant (map embed vs) p q Hok Hs Hq) as H. rewrite embed_values in H by assumption. exact H.
  - destruct (H2 eq_refl) as [e E']. unfold serialize in E. rewrite E in E'. discriminate.
Qed.
