(* C02, command phase (connect): what the client's request_connection writes, the server - given that packet - surfaces as a
   connection request for the same application; accepting it produces a packet that takes the client to Connected with the
   accepted event.  Byte level end to end: AMF0 round trip of the commands (C04/C13), chunk-layer link (Transport), handlers. *)
From Coq Require Import ZArith Lia ZifyN ZifyBool ZifyNat String.
From RML Require Import Model.Base Model.Utf8 Model.Chunk Model.ChunkSer Model.ChunkDe Model.Amf0 Model.Messages Model.Float Model.SessionCommon
  Model.Server Model.Client Gen.Consts Spec.Amf0Spec Spec.Amf0Wire
  Proofs.Amf0Proofs Proofs.MessageProofs Proofs.ChunkSerProofs Proofs.ConfigProofs Proofs.InteropProofs Proofs.FloatProofs
  Proofs.ServerProofs Proofs.SessionFrame Proofs.SessionPartition.
Local Open Scope N_scope.

(* ---------------------------------------------------------------- one packet carrying one message, delivered whole *)
(* the receiving server: acknowledgement prelude, then exactly the handler of the decoded message *)
Lemma server_handle_packet s b clock p de1 de3 :
  ser_ok (sv_ser s) ->
  get_next_message (sv_de s) b = (de1, DMsg p) -> get_next_message de1 [] = (de3, DNone) ->
  (forall s0, sv_de (fst (h_message s0 p clock)) = sv_de s0) ->
  exists s0 pre, same_core s s0 /\ sv_de s0 = sv_de s /\ ser_ok (sv_ser s0) /\ events pre = [] /\
    (snd (ack_step (sv_ack s) (lenN b)) = None -> pre = [] /\ sv_ser s0 = sv_ser s) /\
    sv_ack s0 = fst (ack_step (sv_ack s) (lenN b)) /\
    server_handle_input s b clock =
      (let '(s1, r) := h_message (upd_de s0 de1) p clock in
       match r with ROk rs => (upd_de s1 de3, ROk (pre ++ rs)) | _ => (s1, r) end).
Proof.
  intros Hser G1 G2 Hframe. unfold server_handle_input.
  assert (Hloop : forall fuel s0 acc, sv_de s0 = sv_de s ->
            h_loop (S (S fuel)) s0 b clock acc =
              (let '(s1, r) := h_message (upd_de s0 de1) p clock in
               match r with ROk rs => (upd_de s1 de3, ROk (acc ++ rs)) | _ => (s1, r) end)).
  { intros fuel s0 acc Hd. cbn [h_loop]. rewrite Hd, G1. pose proof (Hframe (upd_de s0 de1)) as Hf. change (sv_de (upd_de s0 de1)) with de1 in Hf.
    destruct (h_message (upd_de s0 de1) p clock) as [s1 r]. cbn [fst] in Hf. destruct r as [rs|e|]; try reflexivity.
    rewrite Hf, G2. reflexivity. }
  destruct (ack_step (sv_ack s) (lenN b)) as [a [n|]] eqn:Ea.
  - destruct (ack_send_ok (sv_ser s) n clock Hser) as [bk [ser2 [Ek Hser2]]]. rewrite Ek.
    exists (upd_ack (upd_ser s ser2) a), [SPacket bk false]. split; [repeat split|]. split; [reflexivity|]. split; [exact Hser2|]. split; [reflexivity|].
    split; [intros Hw; cbn [snd] in Hw; discriminate Hw|]. split; [reflexivity|]. apply Hloop. reflexivity.
  - exists (upd_ack s a), []. split; [repeat split|]. split; [reflexivity|]. split; [exact Hser|]. split; [reflexivity|].
    split; [intros _; split; reflexivity|]. split; [reflexivity|]. apply Hloop. reflexivity.
Qed.

(* a command message a session sends is decoded by the peer as that command *)
Lemma command_roundtrip name tr obj args tid body :
  wf_values (VString name :: VNumber tr :: obj :: args) ->
  to_payload (MAmf0Command name tr obj args) = Ok (tid, body) -> tid = 20 /\ of_payload 20 body = Ok (MAmf0Command name tr obj args).
Proof.
  intros Hwf E. assert (Ht : tid = 20).
  { unfold to_payload in E. destruct (message_body _) as [bb| | |]; cbn [obind] in E; try discriminate. injection E as <- _. reflexivity. }
  subst tid. split; [reflexivity|]. apply (msg_roundtrip (MAmf0Command name tr obj args) 20 body Hwf E).
Qed.

(* ---------------------------------------------------------------- connect: client -> server *)
Definition strip_slash (app0 : bytes) : bytes := match rev app0 with 47 :: r => rev r | _ => app0 end.

Definition connect_props (c : client) (app : bytes) : list (bytes * value) :=
  [(str "app", VString app); (str "flashVer", VString (cc_flash (cl_cfg c))); (str "objectEncoding", VNumber 0)]
  ++ match cc_tcurl (cl_cfg c) with Some u => [(str "tcUrl", VString u)] | None => [] end.

Definition strings_ok (c : client) (app : bytes) : Prop :=
  utf8_valid app = true /\ utf8_valid (cc_flash (cl_cfg c)) = true /\
  (forall u, cc_tcurl (cl_cfg c) = Some u -> utf8_valid u = true) /\ cl_next_tr c < 4294967296.

Lemma connect_values_wf c app : strings_ok c app ->
  wf_values (VString (str "connect") :: VNumber (u32_to_f64 (cl_next_tr c)) :: VObject (connect_props c app) :: []).
Proof.
  intros [Ha [Hf [Hu Hn]]]. cbn [wf_values]. split; [reflexivity|]. split; [apply u32_to_f64_bound; exact Hn|]. split; [|exact I].
  apply wf_value_object. unfold connect_props. destruct (cc_tcurl (cl_cfg c)) as [u|] eqn:E; cbn [List.app map fst].
  - split.
    + repeat (constructor; [cbn [In]; intros Hx; repeat (destruct Hx as [Hx|Hx]; [vm_compute in Hx; discriminate Hx|]); exact Hx|]). constructor.
    + cbn [wf_props wf_value]. repeat split; try reflexivity; try assumption. apply (Hu u eq_refl).
  - split.
    + repeat (constructor; [cbn [In]; intros Hx; repeat (destruct Hx as [Hx|Hx]; [vm_compute in Hx; discriminate Hx|]); exact Hx|]). constructor.
    + cbn [wf_props wf_value]. repeat split; try reflexivity; assumption.
Qed.

(* the server's handler on the decoded connect command *)
Lemma server_connect_handler s c app clock sid :
  h_command s sid (str "connect") (u32_to_f64 (cl_next_tr c)) (VObject (connect_props c app)) [] clock =
  (upd_reqs (upd_objenc s 0) (insert (sv_next_req s) (RConnection (strip_slash app) (u32_to_f64 (cl_next_tr c))) (sv_reqs s)) (sv_next_req s + 1),
   ROk [SEvent (EvConnectionRequested (sv_next_req s) (strip_slash app))]).
Proof.
  unfold h_command. change (bytes_eqb (str "connect") (str "connect")) with true. cbv iota.
  unfold h_connect, connect_props, new_request, strip_slash. cbn [List.app prop_get].
  change (bytes_eqb (str "app") (str "app")) with true. cbv iota.
  change (bytes_eqb (str "objectEncoding") (str "app")) with false. change (bytes_eqb (str "objectEncoding") (str "flashVer")) with false.
  change (bytes_eqb (str "objectEncoding") (str "objectEncoding")) with true. cbv iota. reflexivity.
Qed.

Lemma h_command_frame s sid name tr obj args clock : sv_de (fst (h_command s sid name tr obj args clock)) = sv_de s.
Proof. apply h_command_de. Qed.

(* C02, connect request: the client's request_connection yields one packet; the server, given it, raises the connection request for
   the application (one trailing '/' removed) under a fresh request id and remembers the client's transaction; chunk layers linked *)
Theorem connect_request_delivered c s app clock sclock :
  Link (cl_ser c) (sv_de s) -> ser_ok (sv_ser s) -> cl_state c = Disconnected -> strings_ok c app -> clock < 4294967296 ->
  (exists e, client_request_connection c app clock = (fst (client_request_connection c app clock), CErr e)) \/
  exists b c1 s1 rs,
    client_request_connection c app clock = (c1, COk [CPacket b false]) /\
    cl_state c1 = Disconnected /\ lookup (cl_next_tr c) (cl_trs c1) = Some (TConnection app) /\
    server_handle_input s b sclock = (s1, ROk rs) /\
    events rs = [EvConnectionRequested (sv_next_req s) (strip_slash app)] /\
    lookup (sv_next_req s) (sv_reqs s1) = Some (RConnection (strip_slash app) (u32_to_f64 (cl_next_tr c))) /\
    sv_connected s1 = sv_connected s /\ sv_fms s1 = sv_fms s /\ sv_objenc s1 = 0 /\
    Link (cl_ser c1) (sv_de s1) /\ ser_ok (sv_ser s1) /\ cl_de c1 = cl_de c /\ cl_cfg c1 = cl_cfg c /\
    (ack_window (sv_ack s) = None -> sv_ser s1 = sv_ser s /\ rs = [SEvent (EvConnectionRequested (sv_next_req s) (strip_slash app))]).
Proof.
  intros HL Hser Hst Hstr Hclk.
  pose proof (connect_values_wf c app Hstr) as Hwf.
  unfold client_request_connection. rewrite Hst. unfold new_transaction. cbv zeta. fold (connect_props c app).
  set (c0 := cupd_trs c (insert (cl_next_tr c) (TConnection app) (cl_trs c)) (cl_next_tr c + 1)).
  set (M := MAmf0Command (str "connect") (u32_to_f64 (cl_next_tr c)) (VObject (connect_props c app)) []).
  unfold cone_packet, csending, send_message.
  pose proof (to_payload_total M) as Ht.
  destruct (to_payload M) as [[tid body]|e|x|] eqn:Etp; try contradiction.
  2:{ left. eexists. reflexivity. }
  destruct (command_roundtrip _ _ _ _ tid body Hwf Etp) as [-> Hof].
  set (m := {| m_ts := clock; m_tid := 20; m_sid := 0; m_data := body |}).
  pose proof HL as [sd [HSim _]]. change (cl_ser c0) with (cl_ser c).
  destruct (serialize_refused_or_ok (cl_ser c) m false false (Sim_max _ _ HSim)) as [Hbig Hok].
  destruct (16777215 <? lenN body) eqn:Elen.
  - left. rewrite (Hbig ltac:(cbn [m m_data]; lia)). eexists. reflexivity.
  - right.
    assert (Hwfm : msg_wf m) by (unfold msg_wf, m; cbn [m_ts m_tid m_sid m_data]; repeat split; lia).
    destruct (link_message (cl_ser c) (sv_de s) m false false HL Hwfm ltac:(cbn; lia)) as [b [ser' [de1 [de3 [Hs [G1 [G2 HL2]]]]]]].
    rewrite Hs.
    assert (Hframe : forall s0, sv_de (fst (h_message s0 m sclock)) = sv_de s0).
    { intros s0. unfold h_message. cbn [m m_tid m_data]. rewrite Hof. apply h_command_de. }
    destruct (server_handle_packet s b sclock m de1 de3 Hser G1 G2 Hframe) as [s0 [pre [Hc0 [Hd0 [Hs0 [Hpre [Hnoack [_ Hin]]]]]]]].
    assert (Hm : h_message (upd_de s0 de1) m sclock =
                 (upd_reqs (upd_objenc (upd_de s0 de1) 0) (insert (sv_next_req s0) (RConnection (strip_slash app) (u32_to_f64 (cl_next_tr c))) (sv_reqs s0)) (sv_next_req s0 + 1),
                  ROk [SEvent (EvConnectionRequested (sv_next_req s0) (strip_slash app))])).
    { unfold h_message. cbn [m m_tid m_data m_sid]. rewrite Hof. exact (server_connect_handler (upd_de s0 de1) c app sclock 0). }
    rewrite Hm in Hin. destruct Hc0 as [A1 [A2 [A3 [A4 [A5 [A6 [A7 A8]]]]]]].
    exists b, (cupd_ser c0 ser'). eexists. eexists. split; [reflexivity|]. split; [exact Hst|]. split; [cbn [cl_trs cupd_ser c0 cupd_trs]; apply ChunkSpecProofs.lookup_insert_same|].
    split; [exact Hin|]. split; [unfold events; rewrite flat_map_app; fold (events pre); rewrite Hpre, A3; reflexivity|].
    split; [cbn [sv_reqs upd_de upd_reqs]; rewrite A3; apply ChunkSpecProofs.lookup_insert_same|].
    split; [cbn [sv_connected upd_de upd_reqs upd_objenc]; exact A4|]. split; [cbn [sv_fms upd_de upd_reqs upd_objenc]; exact A8|].
    split; [reflexivity|]. split; [exact HL2|]. split; [exact Hs0|]. split; [reflexivity|]. split; [reflexivity|].
    intros Hw. destruct (Hnoack ltac:(unfold ack_step; rewrite Hw; reflexivity)) as [-> Hser0]. split; [exact Hser0|]. rewrite A3. reflexivity.
Qed.

(* ---------------------------------------------------------------- connect accepted: server -> client *)
Lemma client_handle_packet c b clock p de1 de3 :
  ser_ok (cl_ser c) ->
  get_next_message (cl_de c) b = (de1, DMsg p) -> get_next_message de1 [] = (de3, DNone) ->
  (forall c0, cl_de (fst (ch_message c0 p clock)) = cl_de c0) ->
  exists c0 pre, cl_cfg c0 = cl_cfg c /\ cl_next_tr c0 = cl_next_tr c /\ cl_trs c0 = cl_trs c /\ cl_state c0 = cl_state c /\
    cl_app c0 = cl_app c /\ cl_stream c0 = cl_stream c /\ cl_de c0 = cl_de c /\ ser_ok (cl_ser c0) /\ cevents pre = [] /\
    (snd (ack_step (cl_ack c) (lenN b)) = None -> pre = [] /\ cl_ser c0 = cl_ser c) /\
    cl_ack c0 = fst (ack_step (cl_ack c) (lenN b)) /\
    client_handle_input c b clock =
      (let '(c1, r) := ch_message (cupd_de c0 de1) p clock in
       match r with COk rs => (cupd_de c1 de3, COk (pre ++ rs)) | _ => (c1, r) end).
Proof.
  intros Hser G1 G2 Hframe. unfold client_handle_input.
  assert (Hloop : forall fuel c0 acc, cl_de c0 = cl_de c ->
            ch_loop (S (S fuel)) c0 b clock acc =
              (let '(c1, r) := ch_message (cupd_de c0 de1) p clock in
               match r with COk rs => (cupd_de c1 de3, COk (acc ++ rs)) | _ => (c1, r) end)).
  { intros fuel c0 acc Hd. cbn [ch_loop]. rewrite Hd, G1. pose proof (Hframe (cupd_de c0 de1)) as Hf. change (cl_de (cupd_de c0 de1)) with de1 in Hf.
    destruct (ch_message (cupd_de c0 de1) p clock) as [c1 r]. cbn [fst] in Hf. destruct r as [rs|e|]; try reflexivity.
    rewrite Hf, G2. reflexivity. }
  destruct (ack_step (cl_ack c) (lenN b)) as [a [n|]] eqn:Ea.
  - destruct (ack_send_ok (cl_ser c) n clock Hser) as [bk [ser2 [Ek Hser2]]]. rewrite Ek.
    exists (cupd_ack (cupd_ser c ser2) a), [CPacket bk false]. repeat (split; [reflexivity|]). split; [exact Hser2|]. split; [reflexivity|].
    split; [intros Hw; cbn [snd] in Hw; discriminate Hw|]. split; [reflexivity|]. apply Hloop. reflexivity.
  - exists (cupd_ack c a), []. repeat (split; [reflexivity|]). split; [exact Hser|]. split; [reflexivity|].
    split; [intros _; split; reflexivity|]. split; [reflexivity|]. apply Hloop. reflexivity.
Qed.

Definition accept_info (s : server) (app : bytes) : value :=
  VObject [(str "level", VString (str "status")); (str "code", VString (str "NetConnection.Connect.Success"));
           (str "description", VString (str "Successfully connected on app: " ++ app));
           (str "objectEncoding", VNumber (sv_objenc s))].
Definition accept_obj (s : server) : value :=
  VObject [(str "fmsVer", VString (sv_fms s)); (str "capabilities", VNumber 4629418941960159232)].

Definition accept_strings_ok (s : server) (app : bytes) : Prop :=
  utf8_valid (sv_fms s) = true /\ utf8_valid (str "Successfully connected on app: " ++ app) = true /\ sv_objenc s < 18446744073709551616.

Lemma accept_values_wf s app trn : accept_strings_ok s app -> trn < 4294967296 ->
  wf_values (VString (str "_result") :: VNumber (u32_to_f64 trn) :: accept_obj s :: [accept_info s app]).
Proof.
  intros [Hf [Hd Ho]] Hn. cbn [wf_values]. split; [reflexivity|]. split; [apply u32_to_f64_bound; exact Hn|].
  split; [|split; [|exact I]]; apply wf_value_object; cbn [map fst accept_obj accept_info]; (split;
    [repeat (constructor; [cbn [In]; intros Hx; repeat (destruct Hx as [Hx|Hx]; [vm_compute in Hx; discriminate Hx|]); exact Hx|]); constructor
    |cbn [wf_props wf_value]; repeat split; try reflexivity; try assumption; try lia]).
Qed.

(* the client's handler on the decoded _result of its connect transaction *)
Lemma client_connect_result_handler c trn app obj args clock :
  trn < 4294967296 -> lookup trn (cl_trs c) = Some (TConnection app) ->
  ch_command c (str "_result") (u32_to_f64 trn) obj args clock =
  ch_result c (u32_to_f64 trn) obj args clock.
Proof. intros _ _. unfold ch_command. change (bytes_eqb (str "_result") (str "_result")) with true. reflexivity. Qed.

Theorem connect_accept_delivered s c n app' trn app clock cclock :
  Link (sv_ser s) (cl_de c) -> ser_ok (cl_ser c) -> ser_ok (sv_ser s) ->
  lookup n (sv_reqs s) = Some (RConnection app' (u32_to_f64 trn)) -> trn < 4294967296 ->
  lookup trn (cl_trs c) = Some (TConnection app) ->
  accept_strings_ok s app' -> clock < 4294967296 -> cclock < 4294967296 ->
  1 <= cc_chunk (cl_cfg c) <= 2147483647 ->
  (exists e, snd (server_accept s n clock) = RErr e) \/
  exists b s2 c2 rs b1 b2 pre,
    server_accept s n clock = (s2, ROk [SPacket b false]) /\
    sv_connected s2 = true /\ sv_app s2 = Some app' /\ lookup n (sv_reqs s2) = None /\
    client_handle_input c b cclock = (c2, COk rs) /\
    rs = pre ++ [CPacket b1 false; CEvent CConnectionAccepted; CPacket b2 false] /\ cevents pre = [] /\
    cl_state c2 = Connected /\ cl_app c2 = Some app /\ lookup trn (cl_trs c2) = None /\
    Link (sv_ser s2) (cl_de c2) /\ ser_ok (cl_ser c2) /\ s_max (cl_ser c2) = cc_chunk (cl_cfg c) /\
    cl_cfg c2 = cl_cfg c /\ cl_next_tr c2 = cl_next_tr c /\ cl_stream c2 = cl_stream c /\
    sv_de s2 = sv_de s /\ sv_ack s2 = sv_ack s /\ sv_streams s2 = sv_streams s /\ sv_next_stream s2 = sv_next_stream s /\ ser_ok (sv_ser s2) /\
    (snd (ack_step (cl_ack c) (lenN b)) = None -> pre = [] /\ exists ser1,
       send_message (cl_ser c) (MWindowAcknowledgement (cc_window (cl_cfg c))) cclock 0 false false = Ok (b1, ser1) /\
       ChunkSer.set_max_chunk_size ser1 (cc_chunk (cl_cfg c)) 0 = Ok (b2, cl_ser c2)).
Proof.
  intros HL Hcser Hsser Hreq Htrn Htr Hstr Hclk Hcclk Hchunk.
  unfold server_accept. rewrite Hreq. cbv zeta. unfold accept_connection. cbv zeta.
  set (s1 := upd_conn (upd_reqs s (remove n (sv_reqs s)) (sv_next_req s)) (Some app') true).
  fold (accept_obj s) (accept_info s app'). change (accept_obj (upd_reqs s _ _)) with (accept_obj s). 
  set (M := MAmf0Command (str "_result") (u32_to_f64 trn) _ _).
  pose proof (accept_values_wf s app' trn Hstr Htrn) as Hwf.
  unfold one_packet, sending, send_message.
  pose proof (to_payload_total M) as Ht.
  destruct (to_payload M) as [[tid body]|e|x|] eqn:Etp; try contradiction.
  2:{ left. eexists. reflexivity. }
  assert (HM : M = MAmf0Command (str "_result") (u32_to_f64 trn) (accept_obj s) [accept_info s app']) by reflexivity.
  rewrite HM in Etp. destruct (command_roundtrip _ _ _ _ tid body Hwf Etp) as [-> Hof].
  set (m := {| m_ts := clock; m_tid := 20; m_sid := 0; m_data := body |}).
  pose proof HL as [sd [HSim _]]. change (sv_ser s1) with (sv_ser s).
  destruct (serialize_refused_or_ok (sv_ser s) m false false (Sim_max _ _ HSim)) as [Hbig Hok].
  destruct (16777215 <? lenN body) eqn:Elen.
  - left. rewrite (Hbig ltac:(cbn [m m_data]; lia)). eexists. reflexivity.
  - right.
    assert (Hwfm : msg_wf m) by (unfold msg_wf, m; cbn [m_ts m_tid m_sid m_data]; repeat split; lia).
    destruct (link_message (sv_ser s) (cl_de c) m false false HL Hwfm ltac:(cbn; lia)) as [b [ser' [de1 [de3 [Hs [G1 [G2 HL2]]]]]]].
    rewrite Hs.
    assert (Hframe : forall c0, cl_de (fst (ch_message c0 m cclock)) = cl_de c0).
    { intros c0. unfold ch_message. cbn [m m_tid m_data]. rewrite Hof. apply ch_command_de. }
    destruct (client_handle_packet c b cclock m de1 de3 Hcser G1 G2 Hframe) as [c0 [pre [E1 [E2 [E3 [E4 [E5 [E6 [E7 [Hs0 [Hpre [Hqc [_ Hin]]]]]]]]]]]]].
    (* the client's handler *)
    assert (Hm : exists b1 b2 ser2 ser1,
               ch_message (cupd_de c0 de1) m cclock =
                 (cupd_ser (cupd_app (cupd_state (cupd_trs (cupd_de c0 de1) (remove trn (cl_trs c0)) (cl_next_tr c0)) Connected) (Some app)) ser2,
                  COk [CPacket b1 false; CEvent CConnectionAccepted; CPacket b2 false]) /\ ser_ok ser2 /\ s_max ser2 = cc_chunk (cl_cfg c) /\
               send_message (cl_ser c0) (MWindowAcknowledgement (cc_window (cl_cfg c))) cclock 0 false false = Ok (b1, ser1) /\
               ChunkSer.set_max_chunk_size ser1 (cc_chunk (cl_cfg c)) 0 = Ok (b2, ser2)).
    { unfold ch_message. cbn [m m_tid m_data m_sid]. rewrite Hof.
      rewrite (client_connect_result_handler (cupd_de c0 de1) trn app _ _ cclock Htrn ltac:(cbn [cl_trs cupd_de]; rewrite E3; exact Htr)).
      unfold ch_result, take_transaction. rewrite (u32_roundtrip trn Htrn). cbn [cl_trs cupd_de]. rewrite E3, Htr. cbv zeta.
      unfold csending. cbn [cl_ser cupd_app cupd_state cupd_trs cupd_de cl_cfg].
      destruct (ack_send_ok (cl_ser c0) 0 cclock Hs0) as [_ _].
      pose proof (send_message_total (cl_ser c0) (MWindowAcknowledgement (cc_window (cl_cfg c0))) cclock 0 false false Hs0) as Hsm.
      destruct (send_message (cl_ser c0) (MWindowAcknowledgement (cc_window (cl_cfg c0))) cclock 0 false false) as [[b1 ser1]|e|x|] eqn:Esm; try contradiction.
      2:{ (* the 4-byte window message is always serialized *)
          exfalso. unfold send_message in Esm. cbn [to_payload message_body obind message_type_id] in Esm.
          destruct (serialize_refused_or_ok (cl_ser c0) {| m_ts := cclock; m_tid := TID_WindowAcknowledgement; m_sid := 0; m_data := be32 (cc_window (cl_cfg c0)) |} false false Hs0) as [_ Hk].
          destruct (Hk ltac:(cbn [m_data]; change (lenN (be32 (cc_window (cl_cfg c0)))) with 4; lia)) as [bb [ss [Ek _]]]. rewrite Ek in Esm. discriminate. }
      cbn [cl_ser cupd_ser]. rewrite E1.
      destruct (ser_chunk_size_refused ser1 (cc_chunk (cl_cfg c)) 0 Hsm) as [_ Hset]. destruct (Hset Hchunk) as [b2 [ser2 [Eset Hmax]]].
      rewrite Eset. exists b1, b2, ser2, ser1. split; [reflexivity|]. split; [unfold ser_ok; lia|]. split; [exact Hmax|]. split; [rewrite <- E1; exact Esm|exact Eset]. }
    destruct Hm as [b1 [b2 [ser2 [ser1 [Hm [Hser2 [Hmax2 [Esend1 Esend2]]]]]]]]. rewrite Hm in Hin.
    assert (Hser' : ser_ok ser').
    { destruct (Hok ltac:(cbn [m m_data]; lia)) as [b' [st' [E' Hmx]]]. rewrite Hs in E'. injection E' as <- <-. unfold ser_ok. rewrite Hmx. exact Hsser. }
    exists b, (upd_ser s1 ser'). eexists. eexists. exists b1, b2, pre. split; [reflexivity|]. split; [reflexivity|]. split; [reflexivity|].
    split; [cbn [sv_reqs upd_ser s1 upd_conn upd_reqs]; apply ChunkSpecProofs.lookup_remove_same|].
    split; [exact Hin|]. split; [reflexivity|]. split; [exact Hpre|]. split; [reflexivity|]. split; [reflexivity|].
    split; [cbn [cl_trs cupd_de cupd_ser cupd_app cupd_state cupd_trs]; apply ChunkSpecProofs.lookup_remove_same|].
    split; [exact HL2|]. split; [exact Hser2|]. split; [exact Hmax2|].
    cbn [cl_cfg cl_next_tr cl_stream cupd_de cupd_ser cupd_app cupd_state cupd_trs sv_de sv_ack sv_streams sv_next_stream sv_ser upd_ser s1 upd_conn upd_reqs].
    split; [exact E1|]. split; [exact E2|]. split; [exact E6|]. repeat (split; [reflexivity|]). split; [exact Hser'|].
    intros Hq. destruct (Hqc Hq) as [-> Hc0]. split; [reflexivity|]. exists ser1. rewrite <- Hc0. split; [exact Esend1|exact Esend2].
Qed.

(* ---------------------------------------------------------------- connect completes (whole-packet deliveries) *)
(* At connect time the server has not yet learned an acknowledgement window (the client announces its window only after the
   connection is accepted), so the server emits nothing but what the application's accept produces. *)
Theorem connect_completes c s app clock sclock aclock cclock :
  Link (cl_ser c) (sv_de s) -> Link (sv_ser s) (cl_de c) -> ser_ok (cl_ser c) -> ser_ok (sv_ser s) ->
  cl_state c = Disconnected -> strings_ok c app -> ack_window (sv_ack s) = None ->
  utf8_valid (sv_fms s) = true -> utf8_valid (str "Successfully connected on app: " ++ strip_slash app) = true ->
  clock < 4294967296 -> aclock < 4294967296 -> cclock < 4294967296 -> 1 <= cc_chunk (cl_cfg c) <= 2147483647 ->
  (* either a declared error (a body exceeding the chunk layer's 16 MiB limit) ... *)
  (exists e, client_request_connection c app clock = (fst (client_request_connection c app clock), CErr e)) \/
  (exists b c1 s1 rs e, client_request_connection c app clock = (c1, COk [CPacket b false]) /\
     server_handle_input s b sclock = (s1, ROk rs) /\ snd (server_accept s1 (sv_next_req s) aclock) = RErr e) \/
  (* ... or the whole exchange *)
  exists b1 c1 s1 b2 s2 c2 rs pre w1 w2,
    client_request_connection c app clock = (c1, COk [CPacket b1 false]) /\
    server_handle_input s b1 sclock = (s1, ROk [SEvent (EvConnectionRequested (sv_next_req s) (strip_slash app))]) /\
    server_accept s1 (sv_next_req s) aclock = (s2, ROk [SPacket b2 false]) /\
    client_handle_input c1 b2 cclock = (c2, COk rs) /\
    rs = pre ++ [CPacket w1 false; CEvent CConnectionAccepted; CPacket w2 false] /\ cevents pre = [] /\
    cl_state c2 = Connected /\ cl_app c2 = Some app /\
    sv_connected s2 = true /\ sv_app s2 = Some (strip_slash app) /\
    Link (sv_ser s2) (cl_de c2) /\ s_max (cl_ser c2) = cc_chunk (cl_cfg c).
Proof.
  intros HL1 HL2 Hcs Hss Hst Hstr Hw Hfms Hdesc Hclk Haclk Hcclk Hchunk.
  destruct (connect_request_delivered c s app clock sclock HL1 Hss Hst Hstr Hclk) as [Herr | [b1 [c1 [s1 [rs1 [E1 [Hst1 [Htr1 [E2 [Hev [Hreq [Hconn [Hf1 [Ho1 [HL1' [Hss1 [Hde1 [Hcfg1 Hna]]]]]]]]]]]]]]]]]]; [left; exact Herr|].
  destruct (Hna Hw) as [Hser1 ->].
  assert (Hcs1 : ser_ok (cl_ser c1)).
  { pose proof (client_step_good c (CopConnect app clock) Hcs) as [_ Hg]. cbn [client_step] in Hg. rewrite E1 in Hg. exact Hg. }
  assert (HL2' : Link (sv_ser s1) (cl_de c1)) by (rewrite Hser1, Hde1; exact HL2).
  assert (Hstr2 : accept_strings_ok s1 (strip_slash app)) by (split; [rewrite Hf1; exact Hfms|split; [exact Hdesc|rewrite Ho1; lia]]).
  destruct Hstr as [_ [_ [_ Hn]]].
  destruct (connect_accept_delivered s1 c1 (sv_next_req s) (strip_slash app) (cl_next_tr c) app aclock cclock HL2' Hcs1 Hss1 Hreq Hn Htr1 Hstr2 Haclk Hcclk
              ltac:(rewrite Hcfg1; exact Hchunk))
    as [[e He] | [b2 [s2 [c2 [rs [w1 [w2 [pre [A1 [A2 [A3 [A4 [A5 [A6 [A7 [A8 [A9 [A10 [A11 [A12 [A13 _]]]]]]]]]]]]]]]]]]]]].
  - right. left. exists b1, c1, s1. eexists. exists e. split; [exact E1|]. split; [exact E2|exact He].
  - right. right. exists b1, c1, s1, b2, s2, c2, rs, pre, w1, w2.
    split; [exact E1|]. split; [exact E2|]. split; [exact A1|]. split; [exact A5|]. split; [exact A6|]. split; [exact A7|].
    split; [exact A8|]. split; [exact A9|]. split; [exact A2|]. split; [exact A3|]. split; [exact A11|]. rewrite A13, Hcfg1. reflexivity.
Qed.

(* the hypotheses of connect_completes are satisfiable: a freshly created client against a server state whose serializer has
   emitted nothing the client has not yet read (the initial control packets of server_new move both ends of the link together,
   C02_server_call_transport / link_run). *)
Example connect_hypotheses_satisfiable :
  let c := client_new {| cc_flash := str "v"; cc_buffer := 0; cc_window := 2500000; cc_chunk := 4096; cc_tcurl := None |} in
  let s := {| sv_ser := ser_init; sv_de := de_init; sv_app := None; sv_reqs := []; sv_next_req := 0; sv_connected := false;
              sv_fms := str "FMS/3,0,1,123"; sv_objenc := 0; sv_streams := []; sv_next_stream := 1;
              sv_ack := {| ack_window := None; ack_since := 0 |} |} in
  let app := str "live/" in
  Link (cl_ser c) (sv_de s) /\ Link (sv_ser s) (cl_de c) /\ ser_ok (cl_ser c) /\ ser_ok (sv_ser s) /\
  cl_state c = Disconnected /\ strings_ok c app /\ ack_window (sv_ack s) = None /\
  utf8_valid (sv_fms s) = true /\ utf8_valid (str "Successfully connected on app: " ++ strip_slash app) = true /\
  1 <= cc_chunk (cl_cfg c) <= 2147483647 /\ strip_slash app = str "live".
Proof.
  cbv zeta. split; [exact Link_init|]. split; [exact Link_init|]. split; [vm_compute; discriminate|]. split; [vm_compute; discriminate|].
  split; [reflexivity|]. split; [vm_compute; repeat split; try discriminate; reflexivity|]. split; [reflexivity|]. split; [vm_compute; reflexivity|].
  split; [vm_compute; reflexivity|]. split; [vm_compute; split; discriminate|vm_compute; reflexivity].
Qed.
