(* C18: what a session returns is what its single serializer produced. *)
From Coq Require Import String ZArith Lia ZifyN ZifyBool ZifyNat.
From RML Require Import Model.Base Model.Chunk Model.ChunkSer Model.Messages Model.SessionCommon Model.Server Model.Client
  Proofs.ServerProofs Proofs.ClientProofs.
Local Open Scope N_scope.

(* every message a session sends goes through the chunk serializer as one serialize call with the message's type id *)
Lemma send_message_is_serialize ser m ts sid force drop b ser' :
  send_message ser m ts sid force drop = Ok (b, ser') ->
  exists body, to_payload m = Ok (message_type_id m, body) /\
    ChunkSer.serialize ser {| m_ts := ts; m_tid := message_type_id m; m_sid := sid; m_data := body |} force drop = Ok (b, ser').
Proof.
  unfold send_message, to_payload. destruct (message_body m) as [body|e|x|]; cbn [obind]; try discriminate.
  destruct (ChunkSer.serialize ser _ force drop) as [[b0 s0]|e|x|] eqn:E; try discriminate.
  intros H. inversion H; subst. exists body. split; [reflexivity|exact E].
Qed.

(* the droppable mark of a server packet is the flag the application passed *)
Lemma server_media_droppable s sid data ts drop s' rs (video : bool) :
  (if video then server_send_video s sid data ts drop else server_send_audio s sid data ts drop) = (s', ROk rs) ->
  exists b, rs = [SPacket b drop].
Proof. destruct video; unfold server_send_video, server_send_audio; intros H; apply (one_packet_ok _ _ _ _ _ _ _ _ H). Qed.
