(* C02: from freshly created sessions to the states the workflow theorems start from.  A Set Chunk Size announcement one session
   makes is applied by the peer's handle_input and the chunk layers are linked again; the server's initial control packets and the
   client's post-connect announcements are absorbed without events that change the workflow state. *)
From Coq Require Import ZArith Lia ZifyN ZifyBool ZifyNat String.
From RML Require Import Model.Base Model.Utf8 Model.Chunk Model.ChunkSer Model.ChunkDe Model.Amf0 Model.Messages Model.Float Model.SessionCommon
  Model.Server Model.Client Gen.Consts Spec.Amf0Spec Spec.Amf0Wire
  Proofs.Amf0Proofs Proofs.MessageProofs Proofs.ChunkSerProofs Proofs.ConfigProofs Proofs.InteropProofs Proofs.FloatProofs
  Proofs.ServerProofs Proofs.SessionFrame Proofs.SessionPartition Proofs.ProtocolProofs Proofs.ProtocolFlow Proofs.Utf8Proofs.
Local Open Scope N_scope.

Lemma chunk_size_payload n : 1 <= n <= 2147483647 -> of_payload TID_SetChunkSize (be32 n) = Ok (MSetChunkSize n).
Proof.
  intros H. unfold of_payload. change (TID_SetChunkSize =? 1) with true. cbv iota.
  rewrite read_u32_be32_nil by (unfold u32; lia). replace (MAX_CHUNK_SIZE_MSG <? n) with false by (unfold MAX_CHUNK_SIZE_MSG; lia). reflexivity.
Qed.

Lemma driver_apply_size de1 n ts de2 : 1 <= n <= 2147483647 ->
  driver_apply de1 {| m_ts := ts; m_tid := TID_SetChunkSize; m_sid := 0; m_data := be32 n |} = Ok de2 ->
  de_set_max_chunk_size de1 n = Ok de2.
Proof.
  intros H. unfold driver_apply. cbn [m_tid m_data]. change (TID_SetChunkSize =? 1) with true. cbv iota.
  pose proof (read_u32_be32_nil n ltac:(unfold u32; lia)) as R. unfold read_u32 in R.
  destruct (take_n (be32 n) 4) as [[bb rr]|]; [|discriminate R]. injection R as R1 R2. rewrite R1.
  destruct (de_set_max_chunk_size de1 n) as [d|e|x|]; intros E; try discriminate E. injection E as ->. reflexivity.
Qed.

Theorem server_receives_chunk_size s ser n ts b ser' clock :
  Link ser (sv_de s) -> ser_ok (sv_ser s) -> 1 <= n <= 2147483647 -> ts < 4294967296 ->
  ChunkSer.set_max_chunk_size ser n ts = Ok (b, ser') ->
  exists s2 r, server_handle_input s b clock = (s2, ROk r) /\
  events r = [] /\ same_core s s2 /\ Link ser' (sv_de s2) /\ ser_ok (sv_ser s2) /\
  (quiet (sv_ack s) b -> r = [] /\ sv_ser s2 = sv_ser s /\ sv_ack s2 = fst (ack_step (sv_ack s) (lenN b))).
Proof.
  intros HL Hss Hn Hts Hset.
  destruct (link_op ser (sv_de s) (OpSize n ts) b ser' HL Hts Hset) as [de1 [de2 [de3 [G1 [Hdrv [G2 HL2]]]]]].
  cbn [op_msg] in G1, Hdrv. pose proof (driver_apply_size de1 n ts de2 Hn Hdrv) as Hde.
  assert (Hloop : forall fuel s0 acc, sv_de s0 = sv_de s ->
            h_loop (S (S fuel)) s0 b clock acc = (upd_de (upd_de (upd_de s0 de1) de2) de3, ROk (acc ++ []))).
  { intros fuel s0 acc Hd. cbn [h_loop]. rewrite Hd, G1. unfold h_message. cbn [m_tid m_data].
    rewrite (chunk_size_payload n Hn). cbv iota. cbn [sv_de upd_de]. rewrite Hde. cbn [sv_de upd_de]. rewrite G2. reflexivity. }
  unfold server_handle_input, quiet.
  destruct (ack_step (sv_ack s) (lenN b)) as [a [k|]] eqn:Ea.
  - destruct (ack_send_ok (sv_ser s) k clock Hss) as [bk [ser2 [Ek Hser2]]]. rewrite Ek.
    rewrite (Hloop _ (upd_ack (upd_ser s ser2) a) [SPacket bk false] eq_refl).
    eexists. eexists. split; [reflexivity|]. split; [reflexivity|]. split; [repeat split|]. split; [exact HL2|]. split; [exact Hser2|].
    intros Hq. cbn [snd] in Hq. discriminate Hq.
  - rewrite (Hloop _ (upd_ack s a) [] eq_refl).
    eexists. eexists. split; [reflexivity|]. split; [reflexivity|]. split; [repeat split|]. split; [exact HL2|]. split; [exact Hss|].
    intros _. repeat split.
Qed.

Theorem client_receives_chunk_size c ser n ts b ser' clock :
  Link ser (cl_de c) -> ser_ok (cl_ser c) -> 1 <= n <= 2147483647 -> ts < 4294967296 ->
  ChunkSer.set_max_chunk_size ser n ts = Ok (b, ser') ->
  exists c2 r, client_handle_input c b clock = (c2, COk r) /\
  cevents r = [] /\
  (cl_cfg c2 = cl_cfg c /\ cl_next_tr c2 = cl_next_tr c /\ cl_trs c2 = cl_trs c /\ cl_state c2 = cl_state c /\
   cl_app c2 = cl_app c /\ cl_stream c2 = cl_stream c) /\ Link ser' (cl_de c2) /\ ser_ok (cl_ser c2) /\
  (quiet (cl_ack c) b -> r = [] /\ cl_ser c2 = cl_ser c /\ cl_ack c2 = fst (ack_step (cl_ack c) (lenN b))).
Proof.
  intros HL Hss Hn Hts Hset.
  destruct (link_op ser (cl_de c) (OpSize n ts) b ser' HL Hts Hset) as [de1 [de2 [de3 [G1 [Hdrv [G2 HL2]]]]]].
  cbn [op_msg] in G1, Hdrv. pose proof (driver_apply_size de1 n ts de2 Hn Hdrv) as Hde.
  assert (Hloop : forall fuel c0 acc, cl_de c0 = cl_de c ->
            ch_loop (S (S fuel)) c0 b clock acc = (cupd_de (cupd_de (cupd_de c0 de1) de2) de3, COk (acc ++ []))).
  { intros fuel c0 acc Hd. cbn [ch_loop]. rewrite Hd, G1. unfold ch_message. cbn [m_tid m_data].
    rewrite (chunk_size_payload n Hn). cbv iota. cbn [cl_de cupd_de]. rewrite Hde. cbn [cl_de cupd_de]. rewrite G2. reflexivity. }
  unfold client_handle_input, quiet.
  destruct (ack_step (cl_ack c) (lenN b)) as [a [k|]] eqn:Ea.
  - destruct (ack_send_ok (cl_ser c) k clock Hss) as [bk [ser2 [Ek Hser2]]]. rewrite Ek.
    rewrite (Hloop _ (cupd_ack (cupd_ser c ser2) a) [CPacket bk false] eq_refl).
    eexists. eexists. split; [reflexivity|]. split; [reflexivity|]. split; [repeat split|]. split; [exact HL2|]. split; [exact Hser2|].
    intros Hq. cbn [snd] in Hq. discriminate Hq.
  - rewrite (Hloop _ (cupd_ack c a) [] eq_refl).
    eexists. eexists. split; [reflexivity|]. split; [reflexivity|]. split; [repeat split|]. split; [exact HL2|]. split; [exact Hss|].
    intros _. repeat split.
Qed.

(* ---------------------------------------------------------------- the window announcement *)
Theorem server_learns_window s ser w ts b ser' clock :
  Link ser (sv_de s) -> ser_ok (sv_ser s) -> w < 4294967296 -> ts < 4294967296 ->
  send_message ser (MWindowAcknowledgement w) ts 0 false false = Ok (b, ser') ->
  exists s2 r, server_handle_input s b clock = (s2, ROk r) /\
  events r = [] /\ same_core s s2 /\ Link ser' (sv_de s2) /\ ser_ok (sv_ser s2) /\ ack_window (sv_ack s2) = Some w /\
  (quiet (sv_ack s) b -> r = [] /\ sv_ser s2 = sv_ser s).
Proof.
  intros HL Hss Hw Hts Hsend.
  destruct (server_receives s ser (MWindowAcknowledgement w) ts 0 false false b ser' clock HL Hss Hw I Hts ltac:(lia) Hsend)
    as [pk [de1 [de3 [s0 [pre [Hof [Hsid [Htsp [Hc0 [Hd0 [Hs0 [Hpre [Hq [Hack [HL2 Hrun]]]]]]]]]]]]]]].
  assert (Hm : h_message (upd_de s0 de1) pk clock = (upd_ack (upd_de s0 de1) (ack_learn (sv_ack s0) w), ROk [])).
  { unfold h_message. rewrite Hof. reflexivity. }
  rewrite Hm in Hrun. cbv iota beta in Hrun. rewrite app_nil_r in Hrun.
  eexists. eexists. split; [exact Hrun|]. split; [exact Hpre|]. split; [exact Hc0|]. split; [exact HL2|]. split; [exact Hs0|]. split; [reflexivity|exact Hq].
Qed.

Lemma accept_payload_fits s app x : lenN (sv_fms s) <= 65535 -> lenN app <= 65000 ->
  exists body, to_payload (MAmf0Command (str "_result") x (accept_obj s) [accept_info s app]) = Ok (20, body) /\ lenN body <= 16777215.
Proof.
  intros Hf Ha.
  unfold to_payload, accept_obj, accept_info. cbn [message_body Amf0.serialize encode_values encode_value obind].
  replace (u16_max <? lenN (sv_fms s)) with false by (unfold u16_max; lia).
  replace (u16_max <? lenN (str "Successfully connected on app: " ++ app)) with false by (rewrite lenN_app; len_norm; unfold u16_max; lia).
  closed_strs. cbn [obind message_type_id]. eexists. split; [reflexivity|]. len_norm. lia.
Qed.

Lemma accept_connection_ok s n app' tr clock :
  lookup n (sv_reqs s) = Some (RConnection app' tr) -> ser_ok (sv_ser s) -> lenN (sv_fms s) <= 65535 -> lenN app' <= 65000 ->
  exists s2 b, server_accept s n clock = (s2, ROk [SPacket b false]).
Proof.
  intros Hreq Hss Hf Ha. unfold server_accept. rewrite Hreq. cbv zeta iota. unfold accept_connection. cbv zeta.
  unfold one_packet, sending. cbn [sv_ser sv_fms sv_objenc upd_conn upd_reqs].
  fold (accept_obj s). fold (accept_info s app').
  destruct (send_fits (sv_ser s) (MAmf0Command (str "_result") tr (accept_obj s) [accept_info s app']) clock 0 false false Hss
              (accept_payload_fits s app' tr Hf Ha)) as [b [ser' [E _]]].
  rewrite E. eexists. exists b. reflexivity.
Qed.

(* ---------------------------------------------------------------- after the accept: the client's announcements reach the server *)
(* The accepted connect leaves two client packets in flight (its window and its chunk size).  Once the server has read them the
   pair is in the state C02_publish_completes / C02_play_completes start from. *)
Theorem connect_ready s c n app' trn app clock cclock k1 k2 :
  Link (sv_ser s) (cl_de c) -> Link (cl_ser c) (sv_de s) -> ser_ok (cl_ser c) -> ser_ok (sv_ser s) ->
  lookup n (sv_reqs s) = Some (RConnection app' (u32_to_f64 trn)) -> trn < 4294967296 ->
  lookup trn (cl_trs c) = Some (TConnection app) ->
  accept_strings_ok s app' -> lenN (sv_fms s) <= 65535 -> lenN app' <= 65000 ->
  clock < 4294967296 -> cclock < 4294967296 ->
  1 <= cc_chunk (cl_cfg c) <= 2147483647 -> cc_window (cl_cfg c) < 4294967296 ->
  exists b s2 c2 rs,
    server_accept s n clock = (s2, ROk [SPacket b false]) /\
    client_handle_input c b cclock = (c2, COk rs) /\ cevents rs = [CConnectionAccepted] /\
    cl_state c2 = Connected /\ cl_app c2 = Some app /\ sv_connected s2 = true /\ sv_app s2 = Some app' /\
  (quiet (cl_ack c) b ->
  exists w1 w2, rs = [CPacket w1 false; CEvent CConnectionAccepted; CPacket w2 false] /\
  exists s3 r3, server_handle_input s2 w1 k1 = (s3, ROk r3) /\ events r3 = [] /\
  (quiet (sv_ack s2) w1 -> r3 = [] /\
  exists s4 r4, server_handle_input s3 w2 k2 = (s4, ROk r4) /\ events r4 = [] /\
  (quiet (sv_ack s3) w2 -> r4 = [] /\
   Link (cl_ser c2) (sv_de s4) /\ Link (sv_ser s4) (cl_de c2) /\ ser_ok (cl_ser c2) /\ ser_ok (sv_ser s4) /\
   sv_connected s4 = true /\ sv_app s4 = Some app' /\ sv_next_stream s4 = sv_next_stream s /\
   cl_next_tr c2 = cl_next_tr c /\ cl_cfg c2 = cl_cfg c /\ ack_window (sv_ack s4) = Some (cc_window (cl_cfg c))))).
Proof.
  intros HL2 HL1 Hcs Hss Hreq Htrn Htr Hstr Hf Ha Hclk Hcclk Hchunk Hwin.
  destruct (accept_connection_ok s n app' (u32_to_f64 trn) clock Hreq Hss Hf Ha) as [s2' [b' Hacc']].
  destruct (connect_accept_delivered s c n app' trn app clock cclock HL2 Hcs Hss Hreq Htrn Htr Hstr Hclk Hcclk Hchunk)
    as [[e He] | [b [s2 [c2 [rs [w1 [w2 [pre [A1 [A2 [A3 [A4 [A5 [A6 [A7 [A8 [A9 [A10 [A11 [A12 [A13 [B1 [B2 [B3 [B4 [B5 [B6 [B7 [B8 Hq]]]]]]]]]]]]]]]]]]]]]]]]]]]]];
    [rewrite Hacc' in He; discriminate He|].
  exists b, s2, c2, rs. split; [exact A1|]. split; [exact A5|].
  split; [rewrite A6, cevents_pre by exact A7; reflexivity|].
  split; [exact A8|]. split; [exact A9|]. split; [exact A2|]. split; [exact A3|].
  intros Hq0. destruct (Hq Hq0) as [-> [ser1 [Es1 Es2]]]. exists w1, w2. split; [exact A6|].
  assert (HL1' : Link (cl_ser c) (sv_de s2)) by (rewrite B4; exact HL1).
  destruct (server_learns_window s2 (cl_ser c) (cc_window (cl_cfg c)) cclock w1 ser1 k1 HL1' B8 Hwin Hcclk Es1)
    as [s3 [r3 [Hin3 [Ev3 [Hc3 [HL3 [Hs3 [Hw3 Hq3]]]]]]]].
  exists s3, r3. split; [exact Hin3|]. split; [exact Ev3|]. intros Q3. destruct (Hq3 Q3) as [-> Hser3]. split; [reflexivity|].
  destruct (server_receives_chunk_size s3 ser1 (cc_chunk (cl_cfg c)) 0 w2 (cl_ser c2) k2 HL3 Hs3 Hchunk ltac:(lia) Es2)
    as [s4 [r4 [Hin4 [Ev4 [Hc4 [HL4 [Hs4 Hq4]]]]]]].
  exists s4, r4. split; [exact Hin4|]. split; [exact Ev4|]. intros Q4. destruct (Hq4 Q4) as [-> [Hser4 Hack4]]. split; [reflexivity|].
  destruct Hc3 as [C1 [C2 [C3 [C4 [C5 [C6 [C7 C8]]]]]]]. destruct Hc4 as [D1 [D2 [D3 [D4 [D5 [D6 [D7 D8]]]]]]].
  split; [exact HL4|]. split; [rewrite Hser4, Hser3; exact A11|]. split; [exact A12|]. split; [exact Hs4|].
  split; [rewrite D4, C4; exact A2|]. split; [rewrite D1, C1; exact A3|]. split; [rewrite D6, C6; exact B7|].
  split; [exact B2|]. split; [exact B1|].
  rewrite Hack4. unfold ack_step. rewrite Hw3. cbv zeta. destruct (_ <=? _); exact eq_refl.
Qed.

(* ---------------------------------------------------------------- the server's opening control packets, read by a client *)
Definition ccore (c c2 : client) : Prop :=
  cl_cfg c2 = cl_cfg c /\ cl_next_tr c2 = cl_next_tr c /\ cl_trs c2 = cl_trs c /\ cl_state c2 = cl_state c /\
  cl_app c2 = cl_app c /\ cl_stream c2 = cl_stream c.
Lemma ccore_trans a b c : ccore a b -> ccore b c -> ccore a c.
Proof. unfold ccore. intros [A1 [A2 [A3 [A4 [A5 A6]]]]] [B1 [B2 [B3 [B4 [B5 B6]]]]]. repeat split; congruence. Qed.

Definition bwdone : rtmp_message := MAmf0Command (str "onBWDone") 0 VNull [VNumber 4665729213955833856].

(* messages the client takes note of without changing its workflow state *)
Definition noted (m : rtmp_message) : Prop :=
  (exists w, m = MWindowAcknowledgement w /\ w < 4294967296) \/ m = MUserControl StreamBegin (Some 0) None None \/
  (exists n lt, m = MSetPeerBandwidth n lt /\ n < 4294967296) \/ m = bwdone \/
  (exists n, m = MAcknowledgement n /\ n < 4294967296).      (* the acknowledgement a peer emits when its counter reaches the window *)

Theorem client_notes ser ser' b c m ts cclock f :
  noted m -> Link ser (cl_de c) -> ser_ok (cl_ser c) -> ts < 4294967296 ->
  send_message ser m ts 0 f false = Ok (b, ser') ->
  exists c2 r, client_handle_input c b cclock = (c2, COk r) /\
  (forall e, In e (cevents r) -> match e with CConnectionAccepted | CConnectionRejected _ | CPublishAccepted | CPlaybackAccepted | CVideo _ _ | CAudio _ _ | CMetadata _ => False | _ => True end) /\
  ccore c c2 /\ Link ser' (cl_de c2) /\ ser_ok (cl_ser c2) /\
  (quiet (cl_ack c) b -> cl_ser c2 = cl_ser c).
Proof.
  intros Hn HL Hcs Hts Hsend.
  assert (Hok : msg_ok m /\ plain m).
  { destruct Hn as [[w [-> Hw]]|[ -> |[[n [l0 [-> Hb]]] | [ -> | [n [-> Hb]]]]]]; (split; [|exact I]).
    - exact Hw.
    - cbn [msg_ok]. split; [exists 0; split; [reflexivity|unfold u32; lia]|split; reflexivity].
    - exact Hb.
    - cbn [msg_ok bwdone wf_values wf_value]. repeat split; try reflexivity; lia.
    - exact Hb. }
  destruct Hok as [Hok Hpl].
  destruct (client_receives c ser m ts 0 f false b ser' cclock HL Hcs Hok Hpl Hts ltac:(lia) Hsend)
    as [pk [de1 [de3 [c0 [pre [Hof [Hsid [Htsp [[E1 [E2 [E3 [E4 [E5 E6]]]]] [Hd0 [Hs0 [Hpre [Hq [Hack [HL2 Hrun]]]]]]]]]]]]]]].
  assert (Hm : exists c1 rs, ch_message (cupd_de c0 de1) pk cclock = (c1, COk rs) /\ ccore (cupd_de c0 de1) c1 /\ cl_ser c1 = cl_ser c0 /\ cl_de c1 = de1 /\
             (forall e, In e (cevents rs) -> match e with CUnhandleableCommand _ _ _ _ | CAcknowledgement _ => True | _ => False end)).
  { unfold ch_message. rewrite Hof.
    destruct Hn as [[w [-> Hw]]|[ -> |[[n [l0 [-> Hb]]] | [ -> | [n [-> Hb]]]]]]; cbv iota.
    - eexists. eexists. split; [reflexivity|]. split; [repeat split|]. split; [reflexivity|]. split; [reflexivity|]. intros e [].
    - eexists. eexists. split; [reflexivity|]. split; [repeat split|]. split; [reflexivity|]. split; [reflexivity|]. intros e [].
    - eexists. eexists. split; [reflexivity|]. split; [repeat split|]. split; [reflexivity|]. split; [reflexivity|]. intros e [].
    - unfold bwdone. cbv iota. unfold ch_command. eqb_strs.
      eexists. eexists. split; [reflexivity|]. split; [repeat split|]. split; [reflexivity|]. split; [reflexivity|].
      intros e [<-|[]]. exact I.
    - eexists. eexists. split; [reflexivity|]. split; [repeat split|]. split; [reflexivity|]. split; [reflexivity|]. intros e [<-|[]]. exact I. }
  destruct Hm as [c1 [rs [Hm [Hcore [Hser1 [Hde1 Hev]]]]]]. rewrite Hm in Hrun. cbv iota beta in Hrun.
  eexists. eexists. split; [exact Hrun|].
  split. { intros e He. rewrite cevents_pre in He by exact Hpre. specialize (Hev e He). destruct e; try contradiction; exact I. }
  destruct Hcore as [F1 [F2 [F3 [F4 [F5 F6]]]]]. cbn [cl_cfg cl_next_tr cl_trs cl_state cl_app cl_stream cupd_de] in *.
  split; [unfold ccore; cbn [cl_cfg cl_next_tr cl_trs cl_state cl_app cl_stream cupd_de]; repeat split; congruence|].
  split; [exact HL2|]. split; [cbn [cl_ser cupd_de]; rewrite Hser1; exact Hs0|].
  intros Hquiet. destruct (Hq Hquiet) as [_ Hser0]. cbn [cl_ser cupd_de]. rewrite Hser1. exact Hser0.
Qed.

(* a run of control packets written by one serializer: noted messages and chunk-size announcements *)
Inductive sends : sstate -> list bytes -> sstate -> Prop :=
| sends_nil ser : sends ser [] ser
| sends_msg ser m ts f b ser1 bs ser' :
    noted m -> ts < 4294967296 -> send_message ser m ts 0 f false = Ok (b, ser1) -> sends ser1 bs ser' -> sends ser (b :: bs) ser'
| sends_size ser n ts b ser1 bs ser' :
    1 <= n <= 2147483647 -> ts < 4294967296 -> ChunkSer.set_max_chunk_size ser n ts = Ok (b, ser1) -> sends ser1 bs ser' -> sends ser (b :: bs) ser'.

(* one packet per input call *)
Fixpoint cdeliver (c : client) (ps : list bytes) (clock : N) : option client :=
  match ps with
  | [] => Some c
  | p :: r => match client_handle_input c p clock with (c1, COk _) => cdeliver c1 r clock | _ => None end
  end.
Fixpoint cquiet (c : client) (ps : list bytes) (clock : N) : Prop :=
  match ps with
  | [] => True
  | p :: r => quiet (cl_ack c) p /\ match client_handle_input c p clock with (c1, COk _) => cquiet c1 r clock | _ => True end
  end.

Theorem client_absorbs ser bs ser' : sends ser bs ser' -> forall c clock,
  Link ser (cl_de c) -> ser_ok (cl_ser c) ->
  exists c', cdeliver c bs clock = Some c' /\ ccore c c' /\ Link ser' (cl_de c') /\ ser_ok (cl_ser c') /\
             (cquiet c bs clock -> cl_ser c' = cl_ser c).
Proof.
  induction 1 as [ser|ser m ts f b ser1 bs ser' Hn Hts Hsend Hrest IH|ser n ts b ser1 bs ser' Hn Hts Hset Hrest IH]; intros c clock HL Hcs.
  - exists c. split; [reflexivity|]. split; [repeat split|]. split; [exact HL|]. split; [exact Hcs|]. intros _. reflexivity.
  - destruct (client_notes ser ser1 b c m ts clock f Hn HL Hcs Hts Hsend) as [c2 [r [Hin [_ [Hcore [HL2 [Hs2 Hq]]]]]]].
    destruct (IH c2 clock HL2 Hs2) as [c' [Hd [Hcore' [HL' [Hs' Hq']]]]].
    exists c'. cbn [cdeliver cquiet]. rewrite Hin. split; [exact Hd|]. split; [exact (ccore_trans _ _ _ Hcore Hcore')|]. split; [exact HL'|]. split; [exact Hs'|].
    intros [Q1 Q2]. rewrite (Hq' Q2). exact (Hq Q1).
  - destruct (client_receives_chunk_size c ser n ts b ser1 clock HL Hcs Hn Hts Hset) as [c2 [r [Hin [_ [Hcore [HL2 [Hs2 Hq]]]]]]].
    destruct (IH c2 clock HL2 Hs2) as [c' [Hd [Hcore' [HL' [Hs' Hq']]]]].
    exists c'. cbn [cdeliver cquiet]. rewrite Hin. split; [exact Hd|]. split; [exact (ccore_trans _ _ _ Hcore Hcore')|]. split; [exact HL'|]. split; [exact Hs'|].
    intros [Q1 Q2]. rewrite (Hq' Q2). exact (proj1 (proj2 (Hq Q1))).
Qed.

Definition spackets (rs : list sresult) : list bytes := flat_map (fun r => match r with SPacket b _ => [b] | _ => [] end) rs.

(* what server_new writes *)
Theorem server_new_sends cfg clock :
  1 <= cfg_chunk cfg <= 2147483647 -> cfg_window cfg < 4294967296 -> cfg_bandwidth cfg < 4294967296 -> clock < 4294967296 ->
  exists s0 rs, server_new cfg clock = (s0, ROk rs) /\ events rs = [] /\ sends ser_init (spackets rs) (sv_ser s0) /\
    sv_de s0 = de_init /\ sv_connected s0 = false /\ sv_reqs s0 = [] /\ sv_next_req s0 = 0 /\ sv_streams s0 = [] /\ sv_next_stream s0 = 1 /\
    sv_fms s0 = cfg_fms cfg /\ sv_ack s0 = {| ack_window := None; ack_since := 0 |} /\ ser_ok (sv_ser s0).
Proof.
  intros Hc Hw Hb Hclk. unfold server_new. cbv zeta.
  destruct (ser_chunk_size_refused ser_init (cfg_chunk cfg) 0 ser_init_max) as [_ Hset]. destruct (Hset Hc) as [b1 [ser1 [E1 Hm1]]].
  cbn [sv_ser]. rewrite E1. unfold sending. cbn [sv_ser upd_ser].
  assert (H1 : ser_ok ser1) by (unfold ser_ok; lia).
  assert (Fw : exists body, to_payload (MWindowAcknowledgement (cfg_window cfg)) = Ok (5, body) /\ lenN body <= 16777215)
    by (eexists; split; [reflexivity|cbn [message_body]; change (lenN (be32 (cfg_window cfg))) with 4; lia]).
  destruct Fw as [bw [Ew Lw]]. destruct (send_ok ser1 _ clock 0 true false 5 bw H1 Ew Lw) as [b2 [ser2 E2]]. rewrite E2. cbn [sv_ser upd_ser].
  pose proof (send_message_total ser1 (MWindowAcknowledgement (cfg_window cfg)) clock 0 true false H1) as H2. rewrite E2 in H2.
  destruct (send_fits_uc ser2 StreamBegin (Some 0) None None clock 0 true false H2) as [b3 [ser3 [E3 H3]]]. rewrite E3. cbn [sv_ser upd_ser].
  assert (Fb : exists body, to_payload (MSetPeerBandwidth (cfg_bandwidth cfg) Dynamic) = Ok (6, body) /\ lenN body <= 16777215)
    by (eexists; split; [reflexivity|cbn [message_body]; rewrite lenN_app; change (lenN (be32 (cfg_bandwidth cfg))) with 4; len_norm; lia]).
  destruct Fb as [bb [Eb Lb]]. destruct (send_ok ser3 _ clock 0 true false 6 bb H3 Eb Lb) as [b4 [ser4 E4]]. rewrite E4. cbn [sv_ser upd_ser].
  pose proof (send_message_total ser3 (MSetPeerBandwidth (cfg_bandwidth cfg) Dynamic) clock 0 true false H3) as H4. rewrite E4 in H4.
  assert (N2 : noted (MWindowAcknowledgement (cfg_window cfg))) by (left; eexists; split; [reflexivity|exact Hw]).
  assert (N3 : noted (MUserControl StreamBegin (Some 0) None None)) by (right; left; reflexivity).
  assert (N4 : noted (MSetPeerBandwidth (cfg_bandwidth cfg) Dynamic)) by (right; right; left; eexists; eexists; split; [reflexivity|exact Hb]).
  destruct (cfg_bwdone cfg).
  - fold bwdone.
    assert (F5 : exists body, to_payload bwdone = Ok (20, body) /\ lenN body <= 16777215) by (eexists; split; [vm_compute; reflexivity|vm_compute; discriminate]).
    destruct (send_fits ser4 bwdone clock 0 true false H4 F5) as [b5 [ser5 [E5 H5]]]. rewrite E5.
    eexists. eexists. split; [reflexivity|]. split; [reflexivity|].
    split. { cbn [spackets flat_map List.app sv_ser upd_ser].
             apply (sends_size ser_init (cfg_chunk cfg) 0 b1 ser1 _ _ Hc ltac:(lia) E1). eapply sends_msg; [exact N2|exact Hclk|exact E2|].
             eapply sends_msg; [exact N3|exact Hclk|exact E3|]. eapply sends_msg; [exact N4|exact Hclk|exact E4|].
             eapply sends_msg; [right; right; right; left; reflexivity|exact Hclk|exact E5|]. apply sends_nil. }
    repeat (split; [reflexivity|]). exact H5.
  - eexists. eexists. split; [reflexivity|]. split; [reflexivity|].
    split. { cbn [spackets flat_map List.app sv_ser upd_ser].
             apply (sends_size ser_init (cfg_chunk cfg) 0 b1 ser1 _ _ Hc ltac:(lia) E1). eapply sends_msg; [exact N2|exact Hclk|exact E2|].
             eapply sends_msg; [exact N3|exact Hclk|exact E3|]. eapply sends_msg; [exact N4|exact Hclk|exact E4|]. apply sends_nil. }
    repeat (split; [reflexivity|]). exact H4.
Qed.

(* ---------------------------------------------------------------- from two freshly created sessions to the connect exchange *)
(* server_new's control packets, read by a freshly created client one packet per call: every call succeeds, the client is still
   Disconnected with nothing outstanding, and the chunk layers are linked in both directions - the premises of C02_connect_completes. *)
Theorem sessions_start cfg ccfg clock k :
  1 <= cfg_chunk cfg <= 2147483647 -> cfg_window cfg < 4294967296 -> cfg_bandwidth cfg < 4294967296 -> clock < 4294967296 ->
  exists s0 rs c',
    server_new cfg clock = (s0, ROk rs) /\ events rs = [] /\
    cdeliver (client_new ccfg) (spackets rs) k = Some c' /\
    cl_state c' = Disconnected /\ cl_trs c' = [] /\ cl_next_tr c' = 1 /\ cl_cfg c' = ccfg /\ cl_stream c' = None /\
    Link (sv_ser s0) (cl_de c') /\ ser_ok (cl_ser c') /\ ser_ok (sv_ser s0) /\
    ack_window (sv_ack s0) = None /\ sv_connected s0 = false /\ sv_next_req s0 = 0 /\ sv_next_stream s0 = 1 /\ sv_fms s0 = cfg_fms cfg /\
    (cquiet (client_new ccfg) (spackets rs) k -> Link (cl_ser c') (sv_de s0)).
Proof.
  intros Hc Hw Hb Hclk.
  destruct (server_new_sends cfg clock Hc Hw Hb Hclk) as [s0 [rs [Hnew [Hev [Hsends [S1 [S2 [S3 [S4 [S5 [S6 [S7 [S8 S9]]]]]]]]]]]]].
  destruct (client_absorbs ser_init (spackets rs) (sv_ser s0) Hsends (client_new ccfg) k Link_init ser_init_max)
    as [c' [Hd [[C1 [C2 [C3 [C4 [C5 C6]]]]] [HL [Hs Hq]]]]].
  exists s0, rs, c'. split; [exact Hnew|]. split; [exact Hev|]. split; [exact Hd|].
  split; [exact C4|]. split; [exact C3|]. split; [exact C2|]. split; [exact C1|]. split; [exact C6|].
  split; [exact HL|]. split; [exact Hs|]. split; [exact S9|]. split; [rewrite S8; reflexivity|].
  split; [exact S2|]. split; [exact S4|]. split; [exact S6|]. split; [exact S7|].
  intros Q. rewrite (Hq Q), S1. exact Link_init.
Qed.

(* the premise is satisfiable: with ordinary configurations no acknowledgement falls due while the client reads the opening packets *)
Example start_quiet :
  let cfg := {| cfg_fms := str "FMS/3,0,1,123"; cfg_chunk := 4096; cfg_bandwidth := 2500000; cfg_window := 2500000; cfg_bwdone := true |} in
  let ccfg := {| cc_flash := str "v"; cc_buffer := 1000; cc_window := 2500000; cc_chunk := 4096; cc_tcurl := None |} in
  match server_new cfg 0 with
  | (_, ROk rs) => cquiet (client_new ccfg) (spackets rs) 1 /\ List.length (spackets rs) = 5%nat
  | _ => False
  end.
Proof. vm_compute. repeat split. Qed.

(* ---------------------------------------------------------------- connect, with the outcomes decided *)
Definition sizes_ok (c : client) (app : bytes) : Prop :=
  lenN app <= 65000 /\ lenN (cc_flash (cl_cfg c)) <= 65535 /\ (forall u, cc_tcurl (cl_cfg c) = Some u -> lenN u <= 65535).

Lemma connect_cmd_fits c app x : sizes_ok c app -> lenN app <> 0 \/ True ->
  exists body, to_payload (MAmf0Command (str "connect") x (VObject (connect_props c app)) []) = Ok (20, body) /\ lenN body <= 16777215.
Proof.
  intros [Ha [Hf Hu]] _. unfold to_payload, connect_props.
  destruct (cc_tcurl (cl_cfg c)) as [u|] eqn:Eu; cbn [List.app message_body Amf0.serialize encode_values encode_value obind].
  - specialize (Hu u eq_refl).
    replace (u16_max <? lenN app) with false by (unfold u16_max; lia).
    replace (u16_max <? lenN (cc_flash (cl_cfg c))) with false by (unfold u16_max; lia).
    replace (u16_max <? lenN u) with false by (unfold u16_max; lia).
    closed_strs. cbn [obind message_type_id]. eexists. split; [reflexivity|]. len_norm. lia.
  - replace (u16_max <? lenN app) with false by (unfold u16_max; lia).
    replace (u16_max <? lenN (cc_flash (cl_cfg c))) with false by (unfold u16_max; lia).
    closed_strs. cbn [obind message_type_id]. eexists. split; [reflexivity|]. len_norm. lia.
Qed.

Lemma connect_request_ok c app clock : ser_ok (cl_ser c) -> cl_state c = Disconnected -> sizes_ok c app ->
  exists c1 b, client_request_connection c app clock = (c1, COk [CPacket b false]).
Proof.
  intros Hcs Hst Hsz. unfold client_request_connection. rewrite Hst. unfold new_transaction. cbv zeta. fold (connect_props c app).
  unfold cone_packet, csending. cbn [cl_ser cupd_trs].
  destruct (send_fits (cl_ser c) (MAmf0Command (str "connect") (u32_to_f64 (cl_next_tr c)) (VObject (connect_props c app)) []) clock 0 false false Hcs
              (connect_cmd_fits c app _ Hsz (or_intror I))) as [b [ser' [E _]]].
  rewrite E. eexists. exists b. reflexivity.
Qed.

Lemma strip_slash_len app : lenN (strip_slash app) <= lenN app.
Proof.
  unfold strip_slash. destruct (rev app) as [|x r] eqn:E; [lia|].
  destruct (N.eq_dec x 47) as [->|Hx].
  - assert (Hl : List.length app = S (List.length r)) by (rewrite <- (rev_length app), E; reflexivity).
    unfold lenN. rewrite rev_length, Hl. lia.
  - destruct x as [|p]; [lia|]. repeat (destruct p as [p|p|]; try lia).
Qed.

Lemma strip_slash_utf8 app : utf8_valid app = true -> utf8_valid (strip_slash app) = true.
Proof.
  intros Ha. unfold strip_slash. destruct (rev app) as [|x r] eqn:E; [exact Ha|]. destruct (N.eq_dec x 47) as [->|Hx].
  - assert (Eapp : app = rev r ++ [47]) by (rewrite <- (rev_involutive app), E; reflexivity).
    rewrite Eapp in Ha. apply (utf8_drop_last_ascii (rev r) 47); [lia|exact Ha].
  - destruct x as [|p]; [exact Ha|]. repeat (destruct p as [p|p|]; try exact Ha). exfalso. apply Hx. reflexivity.
Qed.

(* C02_connect_completes with every outcome decided: for names and version strings that fit AMF0's 16-bit length the calls
   succeed - no error alternative is left *)
Theorem connect_completes_decided c s app clock sclock aclock cclock :
  Link (cl_ser c) (sv_de s) -> Link (sv_ser s) (cl_de c) -> ser_ok (cl_ser c) -> ser_ok (sv_ser s) ->
  cl_state c = Disconnected -> strings_ok c app -> sizes_ok c app -> ack_window (sv_ack s) = None ->
  utf8_valid (sv_fms s) = true -> lenN (sv_fms s) <= 65535 ->
  clock < 4294967296 -> aclock < 4294967296 -> cclock < 4294967296 -> 1 <= cc_chunk (cl_cfg c) <= 2147483647 ->
  exists b1 c1 s1 b2 s2 c2 rs pre w1 w2,
    client_request_connection c app clock = (c1, COk [CPacket b1 false]) /\
    server_handle_input s b1 sclock = (s1, ROk [SEvent (EvConnectionRequested (sv_next_req s) (strip_slash app))]) /\
    server_accept s1 (sv_next_req s) aclock = (s2, ROk [SPacket b2 false]) /\
    client_handle_input c1 b2 cclock = (c2, COk rs) /\
    rs = pre ++ [CPacket w1 false; CEvent CConnectionAccepted; CPacket w2 false] /\ cevents pre = [] /\
    cl_state c2 = Connected /\ cl_app c2 = Some app /\
    sv_connected s2 = true /\ sv_app s2 = Some (strip_slash app) /\
    Link (sv_ser s2) (cl_de c2) /\ s_max (cl_ser c2) = cc_chunk (cl_cfg c).
Proof.
  intros HL1 HL2 Hcs Hss Hst Hstr Hsz Hw Hfms Hfl Hclk Haclk Hcclk Hchunk.
  assert (Hstrip : utf8_valid (strip_slash app) = true) by (apply strip_slash_utf8; exact (proj1 Hstr)).
  assert (Hdesc : utf8_valid (str "Successfully connected on app: " ++ strip_slash app) = true)
    by (rewrite utf8_ascii_app by (vm_compute; reflexivity); exact Hstrip).
  destruct (connect_request_ok c app clock Hcs Hst Hsz) as [c1' [b1' Hreq']].
  destruct (connect_completes c s app clock sclock aclock cclock HL1 HL2 Hcs Hss Hst Hstr Hw Hfms Hdesc Hclk Haclk Hcclk Hchunk)
    as [[e He] | [[b [c1 [s1 [rs [e [E1 [E2 E3]]]]]]] | H]].
  - rewrite Hreq' in He. cbn [fst] in He. discriminate He.
  - (* the accept cannot fail: the connection request is registered and its reply fits *)
    exfalso.
    destruct (connect_request_delivered c s app clock sclock HL1 Hss Hst Hstr Hclk) as [[e' He'] | [b0 [c0 [s0 [rs0 [F1 [_ [_ [F2 [_ [Freq [_ [Ffms [_ [_ [Fss _]]]]]]]]]]]]]]]].
    + rewrite Hreq' in He'. cbn [fst] in He'. discriminate He'.
    + rewrite E1 in F1. injection F1 as <- <-. rewrite E2 in F2. injection F2 as <- <-.
      destruct Hsz as [Ha _]. pose proof (strip_slash_len app) as Hl.
      destruct (accept_connection_ok s1 (sv_next_req s) (strip_slash app) _ aclock Freq Fss ltac:(rewrite Ffms; exact Hfl) ltac:(lia)) as [s2 [b2 Hacc]].
      rewrite Hacc in E3. discriminate E3.
  - exact H.
Qed.

(* ---------------------------------------------------------------- acknowledgements are reported and change nothing else *)
(* When a receiving call is not quiet, the extra packet it returns is an Acknowledgement; the peer reads it like this. *)
Theorem server_notes_acknowledgement ser ser' b s n ts f sclock :
  Link ser (sv_de s) -> ser_ok (sv_ser s) -> n < 4294967296 -> ts < 4294967296 ->
  send_message ser (MAcknowledgement n) ts 0 f false = Ok (b, ser') ->
  exists s2 r, server_handle_input s b sclock = (s2, ROk r) /\
  events r = [EvAcknowledgement n] /\ same_core s s2 /\ Link ser' (sv_de s2) /\ ser_ok (sv_ser s2) /\
  (quiet (sv_ack s) b -> r = [SEvent (EvAcknowledgement n)] /\ sv_ser s2 = sv_ser s).
Proof.
  intros HL Hss Hn Hts Hsend.
  destruct (server_receives s ser (MAcknowledgement n) ts 0 f false b ser' sclock HL Hss Hn I Hts ltac:(lia) Hsend)
    as [pk [de1 [de3 [s0 [pre [Hof [Hsid [Htsp [Hc0 [Hd0 [Hs0 [Hpre [Hq [Hack [HL2 Hrun]]]]]]]]]]]]]]].
  assert (Hm : h_message (upd_de s0 de1) pk sclock = (upd_de s0 de1, ROk [SEvent (EvAcknowledgement n)])) by (unfold h_message; rewrite Hof; reflexivity).
  rewrite Hm in Hrun. cbv iota beta in Hrun.
  eexists. eexists. split; [exact Hrun|]. split; [rewrite events_pre by exact Hpre; reflexivity|]. split; [exact Hc0|]. split; [exact HL2|]. split; [exact Hs0|].
  intros Hquiet. destruct (Hq Hquiet) as [-> Hser0]. split; [reflexivity|exact Hser0].
Qed.
