From Coq Require Import ZArith Lia ZifyN ZifyBool ZifyNat.
From RML Require Import Model.Base Model.Time Gen.Consts.
Ltac Zify.zify_post_hook ::= Z.div_mod_to_equations.
Local Open Scope N_scope.

Definition u32 (a : N) : Prop := a < two32.

Lemma add_exact a b : u32 a -> u32 b -> add_values a b = (a + b) mod 2^32 /\ u32 (add_values a b).
Proof. unfold u32, add_values, two32. change (2^32) with 4294967296. intros; split; [reflexivity|lia]. Qed.

Lemma sub_exact a b : u32 a -> u32 b ->
  u32 (sub_values a b) /\ (sub_values a b + b) mod 2^32 = a.
Proof. unfold u32, sub_values, two32. change (2^32) with 4294967296. intros; split; lia. Qed.

Lemma add_sub_inverse a d : u32 a -> u32 d -> sub_values (add_values a d) d = a.
Proof. unfold u32, sub_values, add_values, two32. intros. lia. Qed.

Lemma sub_add_inverse a d : u32 a -> u32 d -> add_values (sub_values a d) d = a.
Proof. unfold u32, sub_values, add_values, two32. intros. lia. Qed.

Lemma cmp_eq_iff a b : u32 a -> u32 b -> (compare_values a b = Eq <-> a = b).
Proof.
  unfold compare_values. intros Ha Hb.
  destruct (N.max a b - N.min a b <=? MAX_ADJACENT_VALUE) eqn:E.
  - rewrite N.compare_eq_iff. tauto.
  - rewrite N.compare_eq_iff. split; congruence.
Qed.

Lemma cmp_antisym a b : compare_values b a = CompOpp (compare_values a b).
Proof.
  unfold compare_values.
  rewrite (N.max_comm b a), (N.min_comm b a).
  destruct (N.max a b - N.min a b <=? MAX_ADJACENT_VALUE); apply N.compare_antisym.
Qed.

(* distance from a forward to b, modulo 2^32 *)
Definition fwd (a b : N) : N := sub_values b a.

Lemma cmp_later_iff a b : u32 a -> u32 b -> fwd a b <> two31 ->
  (compare_values a b = Lt <-> 1 <= fwd a b <= two31 - 1).
Proof.
  unfold u32, fwd, sub_values, compare_values, two32, two31, MAX_ADJACENT_VALUE. intros Ha Hb Hd.
  destruct (N.max a b - N.min a b <=? 2147483647) eqn:E; rewrite N.compare_lt_iff; lia.
Qed.

Lemma cmp_earlier_iff a b : u32 a -> u32 b -> fwd a b <> two31 ->
  (compare_values a b = Gt <-> two31 + 1 <= fwd a b <= two32 - 1).
Proof.
  unfold u32, fwd, sub_values, compare_values, two32, two31, MAX_ADJACENT_VALUE. intros Ha Hb Hd.
  destruct (N.max a b - N.min a b <=? 2147483647) eqn:E; rewrite N.compare_gt_iff; lia.
Qed.

(* at the antipode the numerically smaller value is reported as the later one *)
Lemma cmp_antipode a b : u32 a -> u32 b -> fwd a b = two31 ->
  compare_values a b = CompOpp (N.compare a b) /\ a <> b.
Proof.
  unfold u32, fwd, sub_values, compare_values, two32, two31, MAX_ADJACENT_VALUE. intros Ha Hb Hd.
  destruct (N.max a b - N.min a b <=? 2147483647) eqn:E.
  - exfalso. lia.
  - split; [ rewrite N.compare_antisym; reflexivity | lia ].
Qed.

(* The literal reading "later iff 1..2^31-1 ahead" cannot hold at distance 2^31 for ANY comparison
   function that agrees with equality and is antisymmetric (DESIGN 10.1). *)
Lemma antipode_impossible (cmp : N -> N -> comparison) :
  (forall a b, u32 a -> u32 b -> (cmp a b = Eq <-> a = b)) ->
  (forall a b, cmp b a = CompOpp (cmp a b)) ->
  ~ (forall a b, u32 a -> u32 b -> (cmp a b = Lt <-> 1 <= fwd a b <= two31 - 1)).
Proof.
  intros Heq Hanti Hall.
  assert (Ha : u32 0) by (unfold u32, two32; lia).
  assert (Hb : u32 two31) by (unfold u32, two32, two31; lia).
  pose proof (Hall 0 two31 Ha Hb) as H1.
  pose proof (Hall two31 0 Hb Ha) as H2.
  pose proof (Heq 0 two31 Ha Hb) as H3.
  pose proof (Hanti 0 two31) as H4.
  unfold fwd, sub_values, two32, two31 in *.
  destruct (cmp 0 2147483648) eqn:E1; simpl in H4.
  - destruct H3 as [H3 _]. specialize (H3 eq_refl). lia.
  - destruct H1 as [H1 _]. specialize (H1 eq_refl). lia.
  - destruct H2 as [H2 _]. specialize (H2 H4). lia.
Qed.

Lemma compare_no_underflow a b : exists d, compare_difference_checked a b = Some d /\ d = N.max a b - N.min a b.
Proof.
  unfold compare_difference_checked.
  destruct (N.min a b <=? N.max a b) eqn:E.
  - eexists; split; reflexivity.
  - exfalso. lia.
Qed.

Lemma u32_impls_agree a b :
  ts_partial_cmp a b = Some (ts_cmp a b) /\
  ts_partial_cmp_u32 a b = Some (ts_cmp a b) /\
  u32_partial_cmp_ts a b = Some (ts_cmp a b) /\
  ts_eq_u32 a b = ts_eq a b /\ u32_eq_ts a b = ts_eq a b /\
  (u32 a -> u32 b -> (ts_eq a b = true <-> ts_cmp a b = Eq)).
Proof.
  split; [reflexivity|]. split; [reflexivity|]. split; [reflexivity|].
  split; [reflexivity|]. split; [reflexivity|].
  intros Ha Hb. unfold ts_eq, ts_cmp. rewrite N.eqb_eq. symmetry. apply cmp_eq_iff; assumption.
Qed.

(* Non-vacuity: concrete values across the wrap *)
Example wrap_example :
  compare_values 4294967290 5 = Lt /\ fwd 4294967290 5 = 11 /\ add_values 4294967290 11 = 5 /\ sub_values 5 11 = 4294967290.
Proof. vm_compute. repeat split. Qed.
