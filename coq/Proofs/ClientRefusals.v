(* C10: an answer the client refuses leaves the workflow state alone.  A createStream result that carries no stream number is
   refused with an error; the only thing that changes is that the transaction is consumed: the session stays Connected-or-whatever
   it was, no stream becomes active, nothing is sent. *)
From Coq Require Import String.
From RML Require Import Model.Base Model.Amf0 Model.Chunk Model.Messages Model.Float Model.SessionCommon Model.Client Proofs.ChunkSpecProofs.
Local Open Scope N_scope.

Definition no_stream_number (args : list value) : Prop := forall x rest, args <> VNumber x :: rest.

Lemma create_stream_result_without_number c tr obj args clock p :
  lookup (f64_to_u32 tr) (cl_trs c) = Some (TCreateStream p) -> no_stream_number args ->
  exists c', ch_result c tr obj args clock = (c', CErr CNoStreamNumber) /\
    cl_state c' = cl_state c /\ cl_stream c' = cl_stream c /\ cl_app c' = cl_app c /\ cl_ser c' = cl_ser c /\
    cl_de c' = cl_de c /\ cl_ack c' = cl_ack c /\ cl_next_tr c' = cl_next_tr c /\
    lookup (f64_to_u32 tr) (cl_trs c') = None.
Proof.
  intros Hl Hn. unfold ch_result, take_transaction. rewrite Hl.
  eexists. split.
  - destruct args as [|[x| | | | | |] rest]; try reflexivity. exfalso. exact (Hn x rest eq_refl).
  - cbn. repeat split; try reflexivity. apply lookup_remove_same.
Qed.

Lemma create_stream_error_refused c tr obj args p :
  lookup (f64_to_u32 tr) (cl_trs c) = Some (TCreateStream p) ->
  exists c', ch_error c tr obj args = (c', CErr CCreateStreamFailed) /\
    cl_state c' = cl_state c /\ cl_stream c' = cl_stream c /\ cl_app c' = cl_app c /\ cl_ser c' = cl_ser c /\
    lookup (f64_to_u32 tr) (cl_trs c') = None.
Proof.
  intros Hl. unfold ch_error, take_transaction. rewrite Hl. eexists. split; [reflexivity|].
  cbn. repeat split; try reflexivity. apply lookup_remove_same.
Qed.

Example no_stream_number_examples : no_stream_number [] /\ no_stream_number [VNull; VNumber 4607182418800017408] /\ no_stream_number [VString (str "1")].
Proof. repeat split; intros x rest H; discriminate H. Qed.

(* an onStatus message can do exactly three things: nothing to the session (unknown code reported, malformed or out-of-state status
   refused), PlayRequested -> Playing, PublishRequested -> Publishing.  It never touches the active stream, the transactions, the
   application name or the serializer. *)
Lemma status_effect c args c' r :
  ch_status c args = (c', r) ->
  c' = c \/
  (cl_state c = PlayRequested /\ c' = cupd_state c Playing /\ r = COk [CEvent CPlaybackAccepted]) \/
  (cl_state c = PublishRequested /\ c' = cupd_state c Publishing /\ r = COk [CEvent CPublishAccepted]).
Proof.
  unfold ch_status. intros H.
  destruct args as [|[x| | |ps| | |] rest]; try (injection H as <- _; left; reflexivity).
  destruct (prop_get (str "code") ps) as [[x| |code| | | |]|]; try (injection H as <- _; left; reflexivity).
  destruct (bytes_eqb code (str "NetStream.Play.Start")).
  - destruct (cl_state c) eqn:Es; injection H as <- <-; try (left; reflexivity). right. left. repeat split.
  - destruct (bytes_eqb code (str "NetStream.Publish.Start")).
    + destruct (cl_state c) eqn:Es; injection H as <- <-; try (left; reflexivity). right. right. repeat split.
    + injection H as <- _. left. reflexivity.
Qed.

Lemma status_malformed c args :
  (forall ps rest code, args = VObject ps :: rest -> prop_get (str "code") ps <> Some (VString code)) ->
  ch_status c args = (c, CErr CInvalidOnStatus).
Proof.
  intros H. unfold ch_status.
  destruct args as [|[x| | |ps| | |] rest]; try reflexivity.
  destruct (prop_get (str "code") ps) as [[x| |code| | | |]|] eqn:E; try reflexivity.
  exfalso. exact (H ps rest code eq_refl E).
Qed.

(* an _error answer never advances the workflow: whatever transaction it names (outstanding connect, outstanding createStream, none),
   state, active stream, application name and serializer stay as they are; at most the named transaction is consumed *)
Lemma error_effect c tr obj args c' r :
  ch_error c tr obj args = (c', r) ->
  cl_state c' = cl_state c /\ cl_stream c' = cl_stream c /\ cl_app c' = cl_app c /\ cl_ser c' = cl_ser c /\
  cl_de c' = cl_de c /\ cl_ack c' = cl_ack c /\ cl_next_tr c' = cl_next_tr c /\
  (forall k, k <> f64_to_u32 tr -> lookup k (cl_trs c') = lookup k (cl_trs c)).
Proof.
  unfold ch_error, take_transaction. intros H.
  destruct (lookup (f64_to_u32 tr) (cl_trs c)) as [[app|p]|] eqn:El.
  - injection H as <- _. cbn. repeat split; try reflexivity. intros k Hk. apply lookup_remove_other. exact Hk.
  - injection H as <- _. cbn. repeat split; try reflexivity. intros k Hk. apply lookup_remove_other. exact Hk.
  - injection H as <- _. repeat split; reflexivity.
Qed.
