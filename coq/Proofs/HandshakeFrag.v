(* C05: the handshake under every fragmentation of the peer's bytes.  Same structure as C15 for the chunk deserializer:
   each step looks only at a prefix of the buffer, a call runs until it blocks, and a call on a ++ b is the call on a
   followed by the call on b. *)
From Coq Require Import ZArith Lia ZifyN ZifyBool ZifyNat.
From RML Require Import Model.Base Model.Sha256 Model.Handshake Gen.Consts Proofs.BaseProofs Proofs.HandshakeProofs.
Local Open Scope N_scope.

Section Frag.
  Variable hmac : bytes -> bytes -> bytes.
  Hypothesis hmac_length : forall k m, length (hmac k m) = 32%nat.

  Definition hext (h : hs) (x : bytes) : hs :=
    {| h_stage := h_stage h; h_role := h_role h; h_buf := h_buf h ++ x; h_sent_p1 := h_sent_p1 h; h_rand := h_rand h |}.

  Lemma hext_nil h : hext h [] = h.
  Proof. destruct h. unfold hext. cbn. rewrite app_nil_r. reflexivity. Qed.
  Lemma hext_hext h a b : hext (hext h a) b = hext h (a ++ b).
  Proof. destruct h. unfold hext. cbn. rewrite app_assoc. reflexivity. Qed.

  Definition rank (s : hstage) : nat :=
    match s with NeedToSendP0AndP1 => 0 | WaitingForPacket0 => 1 | WaitingForPacket1 => 2 | WaitingForPacket2 => 3 | Complete => 4 end.

  Lemma stage_eqb_spec a b : stage_eqb a b = true <-> a = b.
  Proof. destruct a, b; cbn; split; intros H; try reflexivity; try discriminate. Qed.

  Lemma skipn_app_le {A} (l x : list A) n : (n <= length l)%nat -> skipn n (l ++ x) = skipn n l ++ x.
  Proof. intros H. rewrite skipn_app. replace (n - length l)%nat with 0%nat by lia. reflexivity. Qed.
  Lemma firstn_app_le {A} (l x : list A) n : (n <= length l)%nat -> firstn n (l ++ x) = firstn n l.
  Proof. intros H. rewrite firstn_app. replace (n - length l)%nat with 0%nat by lia. cbn. apply app_nil_r. Qed.

  (* what one step does, and what it does when more bytes are already there *)
  Lemma step_ext h x :
    match hs_step hmac h with
    | (h', SProgress out) =>
        (stage_eqb (h_stage h) (h_stage h') = true /\ h' = h /\ out = [] /\ h_stage h <> Complete /\ h_stage h <> NeedToSendP0AndP1) \/
        (stage_eqb (h_stage h) (h_stage h') = false /\ rank (h_stage h') = S (rank (h_stage h)) /\ h_stage h' <> Complete /\
         hs_step hmac (hext h x) = (hext h' x, SProgress out))
    | (h', SDone rem) => h_stage h = WaitingForPacket2 /\ h_stage h' = Complete /\ hs_step hmac (hext h x) = (h', SDone (rem ++ x))
    | (h', SFail e) => hs_step hmac (hext h x) = (hext h' x, SFail e)
    end.
  Proof.
    unfold hs_step. destruct (h_stage h) eqn:Es.
    - (* NeedToSend *)
      unfold gen_p0p1. cbn [h_rand h_sent_p1 h_role h_buf hext].
      destruct (take_rand 1524 (h_rand h)) as [fill rand'].
      destruct (match h_role h with RServer => _ | RClient => _ end) as [off key].
      destruct (message_parts _ off) as [[before dd] after].
      right. cbn [h_stage]. rewrite ?Es. repeat split; try discriminate. cbn [hext h_stage]. rewrite ?Es. reflexivity.
    - (* version byte *)
      cbn [hext h_buf h_stage]. rewrite ?Es. destruct (h_buf h) as [|b rest] eqn:Eb.
      + left. rewrite ?Es. repeat split; discriminate.
      + cbn [app]. destruct (b =? HS_VERSION_BYTE).
        * right. cbn [set_stage_buf h_stage]. repeat split; try discriminate.
        * reflexivity.
    - (* packet 1 *)
      cbn [hext h_buf h_stage h_role h_rand]. rewrite ?Es.
      destruct (lenN (h_buf h) <? HS_PACKET_SIZE) eqn:El.
      + left. rewrite ?Es. repeat split; discriminate.
      + assert (Hlen : (1536 <= length (h_buf h))%nat) by (unfold lenN, HS_PACKET_SIZE in El; lia).
        assert (El' : (lenN (h_buf h ++ x) <? HS_PACKET_SIZE) = false) by (unfold lenN, HS_PACKET_SIZE in *; rewrite app_length; lia).
        rewrite El'. change (N.to_nat HS_PACKET_SIZE) with 1536%nat.
        rewrite (firstn_app_le _ x 1536 Hlen), (skipn_app_le _ x 1536 Hlen).
        destruct (find_digest hmac _ _) as [d|].
        * destruct (take_rand 1536 (h_rand h)) as [fill rand']. right. cbn [set_stage_buf h_stage]. repeat split; discriminate.
        * right. cbn [set_stage_buf h_stage]. repeat split; discriminate.
    - (* packet 2 *)
      cbn [hext h_buf h_stage h_rand]. rewrite ?Es.
      destruct (lenN (h_buf h) <? HS_PACKET_SIZE) eqn:El.
      + left. rewrite ?Es. repeat split; discriminate.
      + assert (Hlen : (1536 <= length (h_buf h))%nat) by (unfold lenN, HS_PACKET_SIZE in El; lia).
        assert (El' : (lenN (h_buf h ++ x) <? HS_PACKET_SIZE) = false) by (unfold lenN, HS_PACKET_SIZE in *; rewrite app_length; lia).
        rewrite El'. change (N.to_nat HS_PACKET_SIZE) with 1536%nat. rewrite (skipn_app_le _ x 1536 Hlen).
        repeat split.
    - cbn [hext h_stage]. rewrite ?Es. reflexivity.
  Qed.

  Definition bound (h : hs) : nat := (5 - rank (h_stage h))%nat.

  (* the loop's fuel: any amount above the stage bound gives the same result *)
  Lemma loop_fuel_any f1 : forall f2 h resp, (bound h <= f1)%nat -> (bound h <= f2)%nat ->
    hs_loop hmac f1 h resp [] = hs_loop hmac f2 h resp [].
  Proof.
    induction f1 as [|f1 IH]; intros f2 h resp B1 B2.
    - unfold bound in B1. destruct (h_stage h); cbn in B1; lia.
    - destruct f2 as [|f2]; [unfold bound in B2; destruct (h_stage h); cbn in B2; lia|].
      cbn [hs_loop]. pose proof (step_ext h []) as Hx.
      destruct (hs_step hmac h) as [h' o]. destruct o as [out|rem|e]; [| |reflexivity].
      2:{ destruct Hx as [_ [Hc _]]. rewrite Hc. reflexivity. }
      destruct Hx as [[E [-> [-> _]]] | [E [Hr [Hc _]]]].
      + rewrite E. rewrite Bool.orb_true_r. reflexivity.
      + rewrite E. assert (Ec : stage_eqb (h_stage h') Complete = false).
        { destruct (stage_eqb (h_stage h') Complete) eqn:X; [apply stage_eqb_spec in X; contradiction|reflexivity]. }
        rewrite Ec. cbn [orb]. apply IH; unfold bound in *; rewrite Hr; lia.
  Qed.

  (* a call on more bytes = the call, then a call on the extra bytes *)
  Lemma ext_loop f : forall h x resp, (bound h <= f)%nat ->
    match hs_loop hmac f h resp [] with
    | (h1, HInProgress ra) => hs_loop hmac f (hext h x) resp [] = hs_loop hmac f (hext h1 x) ra [] /\ (bound h1 <= f)%nat
    | (h1, HCompleted ra rem) => hs_loop hmac f (hext h x) resp [] = (h1, HCompleted ra (rem ++ x))
    | (h1, HError e) => hs_loop hmac f (hext h x) resp [] = (hext h1 x, HError e)
    end.
  Proof.
    induction f as [|f IH]; intros h x resp B.
    - unfold bound in B. destruct (h_stage h); cbn in B; lia.
    - cbn [hs_loop]. pose proof (step_ext h x) as Hx. change (h_stage (hext h x)) with (h_stage h).
      destruct (hs_step hmac h) as [h' o] eqn:Es. destruct o as [out|rem|e].
      + destruct Hx as [[E [-> [-> _]]] | [E [Hr [Hc Hs]]]].
        * (* blocked here *)
          rewrite E. rewrite Bool.orb_true_r.
          assert (Ec : stage_eqb (h_stage h) Complete = false).
          { destruct (stage_eqb (h_stage h) Complete) eqn:X; [|reflexivity]. apply stage_eqb_spec in X.
            pose proof (step_ext h []) as Hy. rewrite Es in Hy. destruct Hy as [[_ [_ [_ [Hn _]]]]|[E2 _]]; [contradiction|congruence]. }
          rewrite Ec. rewrite app_nil_r. split; [reflexivity|exact B].
        * rewrite Hs. change (h_stage (hext h' x)) with (h_stage h'). rewrite E.
          assert (Ec : stage_eqb (h_stage h') Complete = false).
          { destruct (stage_eqb (h_stage h') Complete) eqn:X; [apply stage_eqb_spec in X; contradiction|reflexivity]. }
          rewrite Ec. cbn [orb].
          assert (B' : (bound h' <= f)%nat) by (unfold bound in *; rewrite Hr; lia).
          specialize (IH h' x (resp ++ out) B').
          destruct (hs_loop hmac f h' (resp ++ out) []) as [h1 r1]. destruct r1 as [ra|ra rem|e]; try exact IH.
          destruct IH as [I1 I2]. split; [|lia]. rewrite I1. exact (loop_fuel_any f (S f) (hext h1 x) ra I2 ltac:(change (bound (hext h1 x)) with (bound h1); lia)).
      + destruct Hx as [Hw [Hc Hs]]. rewrite Hs. apply stage_eqb_spec in Hc as Hc'. rewrite Hc'. cbn [orb app]. reflexivity.
      + rewrite Hx. reflexivity.
  Qed.

  (* the response accumulator is only ever appended to *)
  Definition with_prefix (pre : bytes) (r : hs_result) : hs_result :=
    match r with
    | HInProgress a => HInProgress (pre ++ a)
    | HCompleted a rem => HCompleted (pre ++ a) rem
    | HError e => HError e
    end.

  Lemma loop_prefix f : forall h pre resp left,
    hs_loop hmac f h (pre ++ resp) left = (fst (hs_loop hmac f h resp left), with_prefix pre (snd (hs_loop hmac f h resp left))).
  Proof.
    induction f as [|f IH]; intros h pre resp left; [reflexivity|]. cbn [hs_loop].
    destruct (hs_step hmac h) as [h' o]. destruct o as [out|rem|e]; [| |reflexivity].
    - destruct (stage_eqb (h_stage h') Complete || stage_eqb (h_stage h) (h_stage h')).
      + destruct (stage_eqb (h_stage h') Complete); cbn [fst snd with_prefix]; rewrite app_assoc; reflexivity.
      + rewrite <- app_assoc. apply IH.
    - destruct (stage_eqb (h_stage h') Complete || stage_eqb (h_stage h) (h_stage h')).
      + destruct (stage_eqb (h_stage h') Complete); reflexivity.
      + apply IH.
  Qed.

  Lemma process_bytes_ext h data : process_bytes hmac h data = hs_loop hmac 6 (hext h data) [] [].
  Proof. reflexivity. Qed.

  Lemma bound_le_6 h : (bound h <= 6)%nat.
  Proof. unfold bound. lia. Qed.

  (* one call on a ++ b  =  the call on a, then (if it did not end the handshake) the call on b *)
  Theorem call_split h a b :
    match process_bytes hmac h a with
    | (h1, HInProgress ra) =>
        process_bytes hmac h (a ++ b) = (fst (process_bytes hmac h1 b), with_prefix ra (snd (process_bytes hmac h1 b)))
    | (h1, HCompleted ra rem) => process_bytes hmac h (a ++ b) = (h1, HCompleted ra (rem ++ b))
    | (h1, HError e) => process_bytes hmac h (a ++ b) = (hext h1 b, HError e)
    end.
  Proof.
    rewrite !process_bytes_ext. rewrite <- hext_hext.
    pose proof (ext_loop 6 (hext h a) b [] (bound_le_6 _)) as H.
    destruct (hs_loop hmac 6 (hext h a) [] []) as [h1 r1]. destruct r1 as [ra|ra rem|e]; try exact H.
    destruct H as [H _]. rewrite H. rewrite process_bytes_ext.
    rewrite <- (app_nil_r ra) at 1. apply loop_prefix.
  Qed.

  (* feeding pieces one call at a time, stopping when the handshake reports completion; the pieces not yet fed stay with the caller *)
  Inductive feed_result := FInProgress (resp : bytes) | FCompleted (resp remaining : bytes) (unfed : list bytes) | FError (e : herr).

  Fixpoint hs_feed (h : hs) (pieces : list bytes) (resp : bytes) : hs * feed_result :=
    match pieces with
    | [] => (h, FInProgress resp)
    | p :: rest =>
      match process_bytes hmac h p with
      | (h', HInProgress r) => hs_feed h' rest (resp ++ r)
      | (h', HCompleted r rem) => (h', FCompleted (resp ++ r) rem rest)
      | (h', HError e) => (h', FError e)
      end
    end.

  Theorem feed_whole pieces : forall h resp, pieces <> [] ->
    match snd (process_bytes hmac h (concat pieces)) with
    | HInProgress r => snd (hs_feed h pieces resp) = FInProgress (resp ++ r)
    | HCompleted r rem => exists rem' unfed, snd (hs_feed h pieces resp) = FCompleted (resp ++ r) rem' unfed /\ rem' ++ concat unfed = rem
    | HError e => snd (hs_feed h pieces resp) = FError e
    end.
  Proof.
    induction pieces as [|p rest IH]; intros h resp Hne; [contradiction|].
    destruct rest as [|q rest'].
    - cbn [concat hs_feed]. rewrite app_nil_r. destruct (process_bytes hmac h p) as [h1 r1]. destruct r1 as [ra|ra rem|e]; cbn [snd hs_feed].
      + reflexivity.
      + exists rem, []. split; [reflexivity|cbn; apply app_nil_r].
      + reflexivity.
    - change (concat (p :: q :: rest')) with (p ++ concat (q :: rest')). pose proof (call_split h p (concat (q :: rest'))) as Hs.
      remember (q :: rest') as tl eqn:Etl. cbn [hs_feed].
      destruct (process_bytes hmac h p) as [h1 r1]. destruct r1 as [ra|ra rem|e].
      + rewrite Hs. cbn [snd]. specialize (IH h1 (resp ++ ra) ltac:(subst tl; discriminate)).
        destruct (snd (process_bytes hmac h1 (concat tl))) as [rb|rb remb|e]; cbn [with_prefix].
        * rewrite IH, app_assoc. reflexivity.
        * destruct IH as [rem' [unfed [E1 E2]]]. exists rem', unfed. rewrite E1, app_assoc. split; [reflexivity|exact E2].
        * exact IH.
      + rewrite Hs. cbn [snd]. exists rem, tl. split; reflexivity.
      + rewrite Hs. reflexivity.
  Qed.

  (* C05: a fresh handshake of either role fed ANY partition of the peer's version byte, packet 1, packet 2 and trailing bytes:
     no error, the responses add up to its own version byte and two packets, completion is reported in the call that
     brings the 3073rd byte and not before, and the bytes after the handshake come back exactly once, in order:
     those of the completing call as `remaining`, the later pieces never consumed *)
  Theorem fresh_any_partition r rand p1 p2 trailing pieces :
    length p1 = 1536%nat -> length p2 = 1536%nat ->
    concat pieces = HS_VERSION_BYTE :: p1 ++ p2 ++ trailing ->
    let own := gen_p0p1 hmac (hs_new r rand) in
    exists remaining unfed,
      snd (hs_feed (hs_new r rand) pieces []) = FCompleted (fst own ++ own_p2 hmac r (h_rand (snd own)) p1) remaining unfed /\ remaining ++ concat unfed = trailing.
  Proof.
    intros H1 H2 Hc own.
    assert (Hne : pieces <> []) by (intros ->; discriminate).
    pose proof (feed_whole pieces (hs_new r rand) [] Hne) as H. rewrite Hc in H.
    rewrite (whole_stream_fresh hmac hmac_length r rand p1 p2 trailing H1 H2) in H. exact H.
  Qed.

  (* completion is not reported before the peer's 3073 bytes have been fed: the pieces consumed up to and including the
     completing call are exactly version byte + packet 1 + packet 2 + the returned remaining bytes *)
  Lemma feed_split pieces : forall h resp r rem unfed,
    snd (hs_feed h pieces resp) = FCompleted r rem unfed -> exists fed, pieces = fed ++ unfed /\ fed <> [].
  Proof.
    induction pieces as [|p rest IH]; intros h resp r rem unfed H; [discriminate|]. cbn [hs_feed] in H.
    destruct (process_bytes hmac h p) as [h1 r1]. destruct r1 as [ra|ra rema|e]; cbn [snd] in H.
    - destruct (IH _ _ _ _ _ H) as [fed [E Hn]]. exists (p :: fed). split; [rewrite E; reflexivity|discriminate].
    - injection H as _ _ <-. exists [p]. split; [reflexivity|discriminate].
    - discriminate.
  Qed.

  Theorem fresh_completion_not_early r rand p1 p2 trailing pieces resp remaining unfed :
    length p1 = 1536%nat -> length p2 = 1536%nat ->
    concat pieces = HS_VERSION_BYTE :: p1 ++ p2 ++ trailing ->
    snd (hs_feed (hs_new r rand) pieces []) = FCompleted resp remaining unfed ->
    exists fed, pieces = fed ++ unfed /\ concat fed = HS_VERSION_BYTE :: p1 ++ p2 ++ remaining /\ (3073 <= length (concat fed))%nat.
  Proof.
    intros H1 H2 Hc Hf.
    destruct (fresh_any_partition r rand p1 p2 trailing pieces H1 H2 Hc) as [rem' [unfed' [E1 E2]]].
    rewrite Hf in E1. injection E1 as _ <- <-.
    destruct (feed_split _ _ _ _ _ _ Hf) as [fed [E Hn]]. exists fed. split; [exact E|].
    assert (Hcf : concat fed = HS_VERSION_BYTE :: p1 ++ p2 ++ remaining).
    { rewrite E, concat_app, <- E2 in Hc.
      replace (HS_VERSION_BYTE :: p1 ++ p2 ++ remaining ++ concat unfed) with ((HS_VERSION_BYTE :: p1 ++ p2 ++ remaining) ++ concat unfed) in Hc
        by (cbn [app]; rewrite <- !app_assoc; reflexivity).
      apply app_inv_tail in Hc. exact Hc. }
    split; [exact Hcf|]. rewrite Hcf. cbn [length]. rewrite !app_length. lia.
  Qed.

  (* the side that starts (a client calls generate_outbound_p0_and_p1 first): the remaining responses are packet 2 only *)
  Theorem whole_stream_after_gen r rand p1 p2 trailing :
    length p1 = 1536%nat -> length p2 = 1536%nat ->
    let own := gen_p0p1 hmac (hs_new r rand) in
    snd (process_bytes hmac (snd own) (HS_VERSION_BYTE :: p1 ++ p2 ++ trailing)) = HCompleted (own_p2 hmac r (h_rand (snd own)) p1) trailing.
  Proof.
    intros H1 H2 own. pose proof (whole_stream_fresh hmac hmac_length r rand p1 p2 trailing H1 H2) as W. cbv zeta in W. fold own in W.
    set (stream := HS_VERSION_BYTE :: p1 ++ p2 ++ trailing) in *.
    rewrite process_bytes_ext in W. rewrite process_bytes_ext.
    (* first step of the fresh run: generate packets 0 and 1 *)
    assert (S1 : hs_step hmac (hext (hs_new r rand) stream) = (hext (snd own) stream, SProgress (fst own))).
    { unfold hs_step, hs_new, hext. cbn [h_stage h_buf h_role h_sent_p1 h_rand]. unfold own, gen_p0p1, hs_new. cbn [h_rand h_sent_p1 h_role h_buf].
      destruct (take_rand 1524 rand) as [fill rand'].
      destruct (match r with RServer => _ | RClient => _ end) as [off key].
      destruct (message_parts _ off) as [[before dd] after]. reflexivity. }
    assert (Hst : h_stage (snd own) = WaitingForPacket0).
    { unfold own, gen_p0p1, hs_new. cbn [h_rand h_sent_p1 h_role h_buf].
      destruct (take_rand 1524 rand) as [fill rand'].
      destruct (match r with RServer => _ | RClient => _ end) as [off key].
      destruct (message_parts _ off) as [[before dd] after]. reflexivity. }
    rewrite (loop_progress hmac 5 _ _ _ [] [] S1) in W;
      [|change (h_stage (hext (snd own) stream)) with (h_stage (snd own)); rewrite Hst; reflexivity
       |change (h_stage (hext (snd own) stream)) with (h_stage (snd own)); rewrite Hst; reflexivity].
    cbn [app] in W. rewrite <- (app_nil_r (fst own)) in W at 1. rewrite loop_prefix in W. cbn [snd] in W.
    rewrite (loop_fuel_any 6 5 (hext (snd own) stream) []); [|unfold bound; lia|unfold bound; change (h_stage (hext (snd own) stream)) with (h_stage (snd own)); rewrite Hst; cbn; lia].
    destruct (snd (hs_loop hmac 5 (hext (snd own) stream) [] [])) as [a|a rem|e]; cbn [with_prefix] in W; try discriminate.
    injection W as Wa Wr. apply app_inv_head in Wa. subst. reflexivity.
  Qed.

  Theorem after_gen_any_partition r rand p1 p2 trailing pieces :
    length p1 = 1536%nat -> length p2 = 1536%nat ->
    concat pieces = HS_VERSION_BYTE :: p1 ++ p2 ++ trailing ->
    let own := gen_p0p1 hmac (hs_new r rand) in
    exists remaining unfed,
      snd (hs_feed (snd own) pieces []) = FCompleted (own_p2 hmac r (h_rand (snd own)) p1) remaining unfed /\ remaining ++ concat unfed = trailing.
  Proof.
    intros H1 H2 Hc own.
    assert (Hne : pieces <> []) by (intros ->; discriminate).
    pose proof (feed_whole pieces (snd own) [] Hne) as H. rewrite Hc in H.
    pose proof (whole_stream_after_gen r rand p1 p2 trailing H1 H2) as W. cbv zeta in W. fold own in W.
    rewrite W in H. exact H.
  Qed.
End Frag.
