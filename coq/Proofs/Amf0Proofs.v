(* AMF0: the decoder maps every specification-conformant encoding to the value it denotes
   (decode_complete), the encoder produces the reference encoding (encode_is_spec), and hence
   encode-then-decode is the identity (roundtrip).  C04 / C12. *)
From Coq Require Import ZArith Lia ZifyN ZifyBool ZifyNat.
From RML Require Import Model.Base Model.Utf8 Model.Amf0 Gen.Consts Spec.Amf0Spec Spec.Amf0Wire Proofs.BaseProofs.
Ltac Zify.zify_post_hook ::= Z.div_mod_to_equations.
Local Open Scope N_scope.
Arguments N.add : simpl never.
Arguments N.sub : simpl never.
Arguments N.mul : simpl never.
Arguments N.div : simpl never.
Arguments N.modulo : simpl never.
Arguments N.eqb : simpl never.
Arguments N.ltb : simpl never.
Arguments N.leb : simpl never.
Arguments of_be : simpl never.
Arguments be16 : simpl never.
Arguments be32 : simpl never.
Arguments be64 : simpl never.
Arguments utf8_valid : simpl never.

(* ------------------------------------------------------------------ equations for the nested fixes *)
Lemma wire_bytes_object ps : wire_bytes (WObject ps) = 3 :: wire_props_bytes ps ++ [0; 0; 9].
Proof. reflexivity. Qed.

Lemma wire_bytes_ecma c ps : wire_bytes (WEcmaArray c ps) = 8 :: be32 c ++ wire_props_bytes ps ++ [0; 0; 9].
Proof. reflexivity. Qed.

Lemma wire_bytes_array ws : wire_bytes (WStrictArray ws) = 10 :: be32 (lenN ws) ++ wire_elems_bytes ws.
Proof. reflexivity. Qed.

Lemma wire_value_object ps : wire_value (WObject ps) = VObject (wire_props_value ps []).
Proof. reflexivity. Qed.

Lemma wire_value_ecma c ps : wire_value (WEcmaArray c ps) = VObject (wire_props_value ps []).
Proof. reflexivity. Qed.

Lemma wire_ok_object ps : wire_ok (WObject ps) <-> wire_props_ok ps.
Proof.
  cbn [wire_ok]. induction ps as [|[n pw] r IH]; [reflexivity|]. cbn [wire_props_ok]. rewrite <- IH. reflexivity.
Qed.

Lemma wire_ok_ecma c ps : wire_ok (WEcmaArray c ps) <-> c < 4294967296 /\ wire_props_ok ps.
Proof.
  cbn [wire_ok]. apply and_iff_compat_l.
  induction ps as [|[n pw] r IH]; [reflexivity|]. cbn [wire_props_ok]. rewrite <- IH. reflexivity.
Qed.

Lemma wire_ok_array ws : wire_ok (WStrictArray ws) <-> lenN ws < 4294967296 /\ wire_elems_ok ws.
Proof.
  cbn [wire_ok]. apply and_iff_compat_l.
  induction ws as [|x r IH]; [reflexivity|]. cbn [wire_elems_ok]. rewrite <- IH. reflexivity.
Qed.

(* ------------------------------------------------------------------ take_n *)
Lemma take_n_app (a b : bytes) : take_n (a ++ b) (lenN a) = Some (a, b).
Proof.
  induction a as [|x a IH].
  - cbn [app]. destruct b; reflexivity.
  - cbn [app take_n]. rewrite lenN_cons.
    destruct (lenN a + 1 =? 0) eqn:E; [lia|].
    replace (lenN a + 1 - 1) with (lenN a) by lia. rewrite IH. reflexivity.
Qed.

Lemma take_n_app_len (a b : bytes) n : n = lenN a -> take_n (a ++ b) n = Some (a, b).
Proof. intros ->. apply take_n_app. Qed.

Lemma take_n_length l n a b : take_n l n = Some (a, b) -> l = a ++ b /\ lenN a = n.
Proof.
  revert n a b. induction l as [|x l IH]; intros n a b H.
  - cbn [take_n] in H. destruct (n =? 0) eqn:E; [|discriminate]. inversion H; subst. split; [reflexivity|]. cbn. lia.
  - cbn [take_n] in H. destruct (n =? 0) eqn:E.
    + inversion H; subst. split; [reflexivity|]. cbn. lia.
    + destruct (take_n l (n - 1)) as [[a' b']|] eqn:T; [|discriminate]. inversion H; subst.
      apply IH in T. destruct T as [-> L]. split; [reflexivity|]. rewrite lenN_cons. lia.
Qed.

(* ------------------------------------------------------------------ decode_complete *)
Ltac markers :=
  unfold NUMBER_MARKER, BOOLEAN_MARKER, STRING_MARKER, OBJECT_MARKER, NULL_MARKER, UNDEFINED_MARKER,
         ECMA_ARRAY_MARKER, OBJECT_END_MARKER, STRICT_ARRAY_MARKER, UTF_8_EMPTY_MARKER in *.

Definition P_value (f : nat) : Prop :=
  forall w rest, (length (wire_bytes w) < f)%nat -> wire_ok w ->
    read_next_value f (wire_bytes w ++ rest) = Ok (Some (wire_value w), rest).
Definition P_props (f : nat) : Prop :=
  forall ps rest acc, (length (wire_props_bytes ps) + 3 <= f)%nat -> wire_props_ok ps ->
    read_props f (wire_props_bytes ps ++ [0; 0; 9] ++ rest) acc = Ok (wire_props_value ps acc, rest).
Definition P_elems (f : nat) : Prop :=
  forall ws rest acc, (length (wire_elems_bytes ws) + 1 < f)%nat -> wire_elems_ok ws -> lenN ws < 4294967296 ->
    read_array f (lenN ws) (wire_elems_bytes ws ++ rest) acc = Ok (rev acc ++ map wire_value ws, rest).

Lemma wire_bytes_nonempty w : (1 <= length (wire_bytes w))%nat.
Proof. destruct w; cbn [wire_bytes length]; lia. Qed.

Lemma step_value f : P_value f -> P_props f -> P_elems f -> P_value (S f).
Proof.
  intros HV HP HE w rest Hlen Hok.
  destruct w as [b|b|s|ps|c ps|ws| |].
  - (* number *)
    cbn [wire_bytes app read_next_value]. markers. cbn [N.eqb Pos.eqb].
    change (0 =? 9) with false; change (0 =? 1) with false; change (0 =? 5) with false;
    change (0 =? 6) with false; change (0 =? 0) with true. cbv iota.
    rewrite (take_n_app_len (be64 b) rest 8) by (unfold lenN; rewrite length_be64; reflexivity).
    cbn [wire_ok] in Hok. rewrite of_be_be64 by assumption. reflexivity.
  - (* boolean *)
    cbn [wire_bytes app read_next_value]. markers.
    change (1 =? 9) with false; change (1 =? 1) with true. cbv iota. reflexivity.
  - (* string *)
    cbn [wire_bytes app read_next_value]. markers.
    change (2 =? 9) with false; change (2 =? 1) with false; change (2 =? 5) with false;
    change (2 =? 6) with false; change (2 =? 0) with false; change (2 =? 3) with false;
    change (2 =? 8) with false; change (2 =? 2) with true. cbv iota.
    cbn [wire_ok] in Hok. destruct Hok as [Hl Hu].
    rewrite <- app_assoc.
    rewrite (take_n_app_len (be16 (lenN s)) (s ++ rest) 2) by reflexivity.
    rewrite of_be_be16 by lia. rewrite take_n_app. rewrite Hu. reflexivity.
  - (* object *)
    rewrite wire_bytes_object in *. rewrite wire_value_object. apply wire_ok_object in Hok.
    cbn [app read_next_value]. markers.
    change (3 =? 9) with false; change (3 =? 1) with false; change (3 =? 5) with false;
    change (3 =? 6) with false; change (3 =? 0) with false; change (3 =? 3) with true. cbv iota.
    rewrite <- app_assoc. rewrite HP; [reflexivity| |assumption].
    cbn [length] in Hlen. rewrite app_length in Hlen. cbn [length] in Hlen. lia.
  - (* ecma array *)
    rewrite wire_bytes_ecma in *. rewrite wire_value_ecma. apply wire_ok_ecma in Hok. destruct Hok as [Hc Hok].
    cbn [app read_next_value]. markers.
    change (8 =? 9) with false; change (8 =? 1) with false; change (8 =? 5) with false;
    change (8 =? 6) with false; change (8 =? 0) with false; change (8 =? 3) with false;
    change (8 =? 8) with true. cbv iota.
    rewrite <- app_assoc.
    rewrite (take_n_app_len (be32 c) _ 4) by reflexivity.
    rewrite <- app_assoc. rewrite HP; [reflexivity| |assumption].
    cbn [length] in Hlen. rewrite !app_length in Hlen. cbn [length] in Hlen. rewrite length_be32 in Hlen. lia.
  - (* strict array *)
    rewrite wire_bytes_array in *. apply wire_ok_array in Hok. destruct Hok as [Hc Hok].
    cbn [app read_next_value wire_value]. markers.
    change (10 =? 9) with false; change (10 =? 1) with false; change (10 =? 5) with false;
    change (10 =? 6) with false; change (10 =? 0) with false; change (10 =? 3) with false;
    change (10 =? 8) with false; change (10 =? 2) with false; change (10 =? 10) with true. cbv iota.
    rewrite <- app_assoc.
    rewrite (take_n_app_len (be32 (lenN ws)) _ 4) by reflexivity.
    rewrite of_be_be32 by assumption.
    rewrite HE; [reflexivity| |assumption|assumption].
    cbn [length] in Hlen. rewrite !app_length in Hlen. rewrite length_be32 in Hlen. lia.
  - cbn [wire_bytes app read_next_value]. markers.
    change (5 =? 9) with false; change (5 =? 1) with false; change (5 =? 5) with true. reflexivity.
  - cbn [wire_bytes app read_next_value]. markers.
    change (6 =? 9) with false; change (6 =? 1) with false; change (6 =? 5) with false;
    change (6 =? 6) with true. reflexivity.
Qed.

Lemma step_props f : P_value f -> P_props f -> P_props (S f).
Proof.
  intros HV HP ps rest acc Hlen Hok.
  destruct ps as [|[name pw] r].
  - cbn [wire_props_bytes app read_props take_n]. markers.
    change (2 =? 0) with false. change (2 - 1) with 1. change (1 =? 0) with false. change (1 - 1) with 0.
    change (0 =? 0) with true. cbv iota.
    change (of_be [0; 0] =? 0) with true. cbv iota. change (9 =? 9) with true. reflexivity.
  - cbn [wire_props_bytes wire_props_ok] in *. destruct Hok as [[Hn Hu] [Hw Hr]].
    cbn [read_props]. rewrite <- !app_assoc.
    rewrite (take_n_app_len (be16 (lenN name)) _ 2) by reflexivity.
    rewrite of_be_be16 by lia.
    destruct (lenN name =? 0) eqn:E; [lia|].
    rewrite take_n_app. rewrite Hu.
    rewrite !app_length in Hlen. rewrite length_be16 in Hlen.
    assert (Hnl : (1 <= length name)%nat) by (unfold lenN in Hn; lia).
    pose proof (wire_bytes_nonempty pw) as Hpw.
    rewrite HV; [|lia|assumption]. cbn [obind].
    cbn [wire_props_value]. apply HP; [lia|assumption].
Qed.

Lemma step_elems f : P_value f -> P_elems f -> P_elems (S f).
Proof.
  intros HV HE ws rest acc Hlen Hok Hc.
  destruct ws as [|x r].
  - cbn [wire_elems_bytes app read_array map]. change (lenN (@nil wire) =? 0) with true. cbv iota.
    rewrite app_nil_r. reflexivity.
  - cbn [wire_elems_bytes wire_elems_ok] in *. destruct Hok as [Hx Hr].
    cbn [read_array]. rewrite lenN_cons in *.
    destruct (lenN r + 1 =? 0) eqn:E; [lia|].
    rewrite <- app_assoc. rewrite app_length in Hlen.
    pose proof (wire_bytes_nonempty x) as Hpw.
    rewrite HV; [|lia|assumption]. cbn [obind].
    replace (lenN r + 1 - 1) with (lenN r) by lia.
    rewrite HE; [|lia|assumption|lia].
    cbn [rev map]. rewrite <- app_assoc. reflexivity.
Qed.

Lemma decode_all_P f : P_value f /\ P_props f /\ P_elems f.
Proof.
  induction f as [|f [HV [HP HE]]].
  - repeat split.
    + intros w rest H. pose proof (wire_bytes_nonempty w). lia.
    + intros ps rest acc H. lia.
    + intros ws rest acc H. lia.
  - split; [apply step_value; assumption|]. split; [apply step_props; assumption|apply step_elems; assumption].
Qed.

Lemma decode_complete_value w rest f :
  wire_ok w -> (length (wire_bytes w) < f)%nat ->
  read_next_value f (wire_bytes w ++ rest) = Ok (Some (wire_value w), rest).
Proof. intros Hok Hf. apply (proj1 (decode_all_P f)); assumption. Qed.

(* whole-input statement: a sequence of conformant encodings decodes to the values they denote *)
Lemma read_all_complete ws : forall f acc,
  wire_elems_ok ws -> (length ws < f)%nat ->
  read_all f (wire_elems_bytes ws) acc = Ok (rev acc ++ map wire_value ws, []).
Proof.
  induction ws as [|w r IH]; intros f acc Hok Hf.
  - destruct f as [|f]; [lia|]. cbn [wire_elems_bytes read_all length read_next_value obind map].
    rewrite app_nil_r. reflexivity.
  - destruct f as [|f]; [cbn [length] in Hf; lia|].
    cbn [wire_elems_bytes wire_elems_ok] in *. destruct Hok as [Hw Hr].
    cbn [read_all].
    rewrite decode_complete_value; [|assumption|rewrite app_length; lia].
    cbn [obind]. rewrite IH; [|assumption|cbn [length] in Hf; lia].
    cbn [rev map]. rewrite <- app_assoc. reflexivity.
Qed.

Lemma wire_elems_length ws : (length ws <= length (wire_elems_bytes ws))%nat.
Proof.
  induction ws as [|w r IH]; [reflexivity|]. cbn [wire_elems_bytes length]. rewrite app_length.
  pose proof (wire_bytes_nonempty w). lia.
Qed.

Theorem decode_complete ws :
  wire_elems_ok ws -> deserialize (wire_elems_bytes ws) = Ok (map wire_value ws).
Proof.
  intros Hok. unfold deserialize, deserialize_rest.
  rewrite read_all_complete; [reflexivity|assumption|]. pose proof (wire_elems_length ws). lia.
Qed.

(* ------------------------------------------------------------------ induction principle for values *)
Section value_ind2.
  Variable P : value -> Prop.
  Hypothesis Hnum : forall b, P (VNumber b).
  Hypothesis Hbool : forall b, P (VBoolean b).
  Hypothesis Hstr : forall s, P (VString s).
  Hypothesis Hobj : forall ps, Forall (fun p => P (snd p)) ps -> P (VObject ps).
  Hypothesis Harr : forall vs, Forall P vs -> P (VStrictArray vs).
  Hypothesis Hnull : P VNull.
  Hypothesis Hundef : P VUndefined.
  Fixpoint value_ind2 (v : value) : P v :=
    match v with
    | VNumber b => Hnum b
    | VBoolean b => Hbool b
    | VString s => Hstr s
    | VObject ps =>
        Hobj ps ((fix go (ps : list (bytes * value)) : Forall (fun p => P (snd p)) ps :=
                    match ps with
                    | [] => Forall_nil _
                    | (k, x) :: r => Forall_cons (k, x) (value_ind2 x) (go r)
                    end) ps)
    | VStrictArray vs =>
        Harr vs ((fix go (vs : list value) : Forall P vs :=
                    match vs with
                    | [] => Forall_nil _
                    | x :: r => Forall_cons x (value_ind2 x) (go r)
                    end) vs)
    | VNull => Hnull
    | VUndefined => Hundef
    end.
End value_ind2.

(* equations for the nested fixes of the model and the specs (all by conversion) *)
Lemma encode_value_object ps :
  encode_value (VObject ps) =
  obind (encode_props ps) (fun b => Ok (OBJECT_MARKER :: b ++ be16 UTF_8_EMPTY_MARKER ++ [OBJECT_END_MARKER])).
Proof. reflexivity. Qed.
Lemma encode_value_array vs :
  encode_value (VStrictArray vs) =
  obind (encode_values vs) (fun b => Ok (STRICT_ARRAY_MARKER :: be32 (lenN vs mod two32) ++ b)).
Proof. reflexivity. Qed.
Lemma embed_object ps : embed (VObject ps) = WObject (embed_props ps).
Proof. reflexivity. Qed.
Lemma wf_value_object ps : wf_value (VObject ps) <-> NoDup (map fst ps) /\ wf_props ps.
Proof. reflexivity. Qed.
Lemma wf_value_array vs : wf_value (VStrictArray vs) <-> lenN vs < 4294967296 /\ wf_values vs.
Proof. reflexivity. Qed.
Lemma expressible_object ps : expressible (VObject ps) = expressible_props ps.
Proof. reflexivity. Qed.
Lemma expressible_array vs : expressible (VStrictArray vs) = expressible_all vs.
Proof. reflexivity. Qed.

(* ------------------------------------------------------------------ the encoder emits the wire form *)
Definition enc_spec (v : value) : Prop :=
  wf_value v ->
  (expressible v = true -> encode_value v = Ok (wire_bytes (embed v)) /\ wire_ok (embed v)) /\
  (expressible v = false -> exists e, encode_value v = Err e).

Lemma lenN_map {A B} (f : A -> B) l : lenN (map f l) = lenN l.
Proof. unfold lenN. rewrite map_length. reflexivity. Qed.

Lemma encode_wire v : enc_spec v.
Proof.
  induction v as [b|b|s|ps IH|vs IH| |] using value_ind2; unfold enc_spec; intros Hwf.
  - cbn [expressible encode_value embed wire_bytes wire_ok wf_value] in *. markers. split; [intros _; split; [reflexivity|assumption]|discriminate].
  - cbn [expressible encode_value embed wire_bytes wire_ok]. markers. split; [intros _; split; [destruct b; reflexivity|destruct b; lia]|discriminate].
  - cbn [expressible encode_value embed wire_bytes wire_ok wf_value] in *. markers. unfold u16_max.
    destruct (65535 <? lenN s) eqn:E; split; intros H; try lia.
    + eexists; reflexivity.
    + split; [reflexivity|]. split; [lia|assumption].
  - (* object *)
    rewrite expressible_object, encode_value_object, embed_object, wire_bytes_object.
    apply wf_value_object in Hwf. destruct Hwf as [_ Hwf].
    assert (Hps : (expressible_props ps = true -> encode_props ps = Ok (wire_props_bytes (embed_props ps)) /\ wire_props_ok (embed_props ps)) /\
                  (expressible_props ps = false -> exists e, encode_props ps = Err e)).
    { induction ps as [|[k x] r IHr]; [split; [intros _; split; reflexivity|discriminate]|].
      inversion IH as [|? ? Hx Hr]; subst. cbn [snd] in Hx.
      cbn [wf_props] in Hwf. destruct Hwf as [Hu [Hwx Hwr]].
      specialize (IHr Hr Hwr). specialize (Hx Hwx).
      cbn [expressible_props encode_props embed_props wire_props_bytes wire_props_ok]. unfold u16_max.
      destruct (65535 <? lenN k) eqn:E1.
      { split; intros H; [|eexists; reflexivity]. exfalso.
        destruct (lenN k <=? 65535) eqn:E2; [lia|]. rewrite andb_false_r in H. discriminate. }
      destruct (lenN k =? 0) eqn:E2.
      { split; intros H; [|eexists; reflexivity]. exfalso.
        destruct (1 <=? lenN k) eqn:E3; [lia|]. discriminate. }
      replace (1 <=? lenN k) with true by lia. replace (lenN k <=? 65535) with true by lia. cbn [andb].
      destruct (expressible x) eqn:Ex.
      - destruct Hx as [Hx _]. destruct (Hx eq_refl) as [Hx1 Hx2]. rewrite Hx1. cbn [obind andb].
        destruct (expressible_props r) eqn:Er.
        + destruct IHr as [IHr _]. destruct (IHr eq_refl) as [I1 I2]. rewrite I1. cbn [obind].
          split; [intros _|discriminate]. split; [reflexivity|]. repeat split; try assumption; lia.
        + destruct IHr as [_ IHr]. destruct (IHr eq_refl) as [e He]. rewrite He. cbn [obind].
          split; [discriminate|intros _; eexists; reflexivity].
      - destruct Hx as [_ Hx]. destruct (Hx eq_refl) as [e He]. rewrite He. cbn [obind andb].
        split; [discriminate|intros _; eexists; reflexivity]. }
    destruct Hps as [H1 H2]. split; intros H.
    + destruct (H1 H) as [E O]. rewrite E. cbn [obind]. markers. split; [reflexivity|]. apply wire_ok_object. assumption.
    + destruct (H2 H) as [e E]. rewrite E. eexists; reflexivity.
  - (* array *)
    rewrite expressible_array, encode_value_array.
    apply wf_value_array in Hwf. destruct Hwf as [Hc Hwf].
    assert (Hvs : (expressible_all vs = true -> encode_values vs = Ok (wire_elems_bytes (map embed vs)) /\ wire_elems_ok (map embed vs)) /\
                  (expressible_all vs = false -> exists e, encode_values vs = Err e)).
    { clear Hc. induction vs as [|x r IHr]; [split; [intros _; split; reflexivity|discriminate]|].
      inversion IH as [|? ? Hx Hr]; subst.
      cbn [wf_values] in Hwf. destruct Hwf as [Hwx Hwr].
      specialize (IHr Hr Hwr). specialize (Hx Hwx).
      cbn [expressible_all encode_values map wire_elems_bytes wire_elems_ok].
      destruct (expressible x) eqn:Ex.
      - destruct Hx as [Hx _]. destruct (Hx eq_refl) as [Hx1 Hx2]. rewrite Hx1. cbn [obind andb].
        destruct (expressible_all r) eqn:Er.
        + destruct IHr as [IHr _]. destruct (IHr eq_refl) as [I1 I2]. rewrite I1. cbn [obind].
          split; [intros _|discriminate]. split; [reflexivity|]. split; assumption.
        + destruct IHr as [_ IHr]. destruct (IHr eq_refl) as [e He]. rewrite He. cbn [obind].
          split; [discriminate|intros _; eexists; reflexivity].
      - destruct Hx as [_ Hx]. destruct (Hx eq_refl) as [e He]. rewrite He. cbn [obind andb].
        split; [discriminate|intros _; eexists; reflexivity]. }
    destruct Hvs as [H1 H2]. split; intros H.
    + destruct (H1 H) as [E O]. rewrite E. cbn [obind embed]. rewrite wire_bytes_array. markers.
      rewrite lenN_map. unfold two32. rewrite N.mod_small by assumption.
      split; [reflexivity|]. apply wire_ok_array. rewrite lenN_map. split; assumption.
    + destruct (H2 H) as [e E]. rewrite E. eexists; reflexivity.
  - cbn. markers. split; [intros _; split; [reflexivity|exact I]|discriminate].
  - cbn. markers. split; [intros _; split; [reflexivity|exact I]|discriminate].
Qed.

(* ------------------------------------------------------------------ denotation of an embedded value *)
Lemma map_insert_fresh k v acc : ~ In k (map fst acc) -> map_insert k v acc = acc ++ [(k, v)].
Proof.
  induction acc as [|[k' v'] r IH]; intros H; [reflexivity|].
  cbn [map_insert]. destruct (list_eq_dec N.eq_dec k k') as [->|Hne].
  - exfalso. apply H. left. reflexivity.
  - cbn [app]. rewrite IH; [reflexivity|]. intros Hin. apply H. right. exact Hin.
Qed.

Lemma embed_value v : wf_value v -> wire_value (embed v) = v.
Proof.
  induction v as [b|b|s|ps IH|vs IH| |] using value_ind2; intros Hwf; try reflexivity.
  - destruct b; reflexivity.
  - rewrite embed_object, wire_value_object. apply wf_value_object in Hwf. destruct Hwf as [Hnd Hwf]. f_equal.
    assert (G : forall acc, NoDup (map fst acc ++ map fst ps) -> wire_props_value (embed_props ps) acc = acc ++ ps).
    { clear Hnd. induction ps as [|[k x] r IHr]; intros acc Hnd; [cbn; rewrite app_nil_r; reflexivity|].
      inversion IH as [|? ? Hx Hr]; subst. cbn [snd] in Hx.
      cbn [wf_props] in Hwf. destruct Hwf as [_ [Hwx Hwr]].
      cbn [embed_props wire_props_value]. rewrite Hx by assumption.
      cbn [map fst] in Hnd.
      rewrite map_insert_fresh.
      - rewrite IHr; try assumption.
        + rewrite <- app_assoc. reflexivity.
        + rewrite map_app. cbn [map fst]. rewrite <- app_assoc. exact Hnd.
      - apply NoDup_remove_2 in Hnd. intros Hin. apply Hnd. apply in_or_app. left. exact Hin. }
    rewrite G; [reflexivity|exact Hnd].
  - apply wf_value_array in Hwf. destruct Hwf as [_ Hwf]. cbn [embed wire_value]. f_equal.
    induction vs as [|x r IHr]; [reflexivity|]. inversion IH as [|? ? Hx Hr]; subst.
    cbn [wf_values] in Hwf. destruct Hwf as [Hwx Hwr]. cbn [map]. rewrite Hx by assumption. rewrite IHr by assumption. reflexivity.
Qed.

Lemma embed_values vs : wf_values vs -> map wire_value (map embed vs) = vs.
Proof.
  induction vs as [|x r IH]; intros H; [reflexivity|]. cbn [wf_values] in H. destruct H as [Hx Hr].
  cbn [map]. rewrite embed_value by assumption. rewrite IH by assumption. reflexivity.
Qed.

Lemma encode_values_wire vs : wf_values vs ->
  (expressible_all vs = true -> encode_values vs = Ok (wire_elems_bytes (map embed vs)) /\ wire_elems_ok (map embed vs)) /\
  (expressible_all vs = false -> exists e, encode_values vs = Err e).
Proof.
  induction vs as [|x r IHr]; intros Hwf; [split; [intros _; split; reflexivity|discriminate]|].
  cbn [wf_values] in Hwf. destruct Hwf as [Hwx Hwr]. specialize (IHr Hwr). pose proof (encode_wire x Hwx) as Hx.
  cbn [expressible_all encode_values map wire_elems_bytes wire_elems_ok].
  destruct (expressible x) eqn:Ex.
  - destruct Hx as [Hx _]. destruct (Hx eq_refl) as [Hx1 Hx2]. rewrite Hx1. cbn [obind andb].
    destruct (expressible_all r) eqn:Er.
    + destruct IHr as [IHr _]. destruct (IHr eq_refl) as [I1 I2]. rewrite I1. cbn [obind].
      split; [intros _|discriminate]. split; [reflexivity|]. split; assumption.
    + destruct IHr as [_ IHr]. destruct (IHr eq_refl) as [e He]. rewrite He. cbn [obind].
      split; [discriminate|intros _; eexists; reflexivity].
  - destruct Hx as [_ Hx]. destruct (Hx eq_refl) as [e He]. rewrite He. cbn [obind andb].
    split; [discriminate|intros _; eexists; reflexivity].
Qed.

(* C04: encode then decode is the identity; an error exactly for what AMF0 cannot express *)
Theorem roundtrip vs : wf_values vs ->
  (expressible_all vs = true ->
     exists bs, serialize vs = Ok bs /\ deserialize_rest bs = Ok (vs, [])) /\
  (expressible_all vs = false -> exists e, serialize vs = Err e).
Proof.
  intros Hwf. destruct (encode_values_wire vs Hwf) as [H1 H2]. split; intros H.
  - destruct (H1 H) as [E O]. exists (wire_elems_bytes (map embed vs)). split; [exact E|].
    unfold deserialize_rest. rewrite read_all_complete; [|assumption|pose proof (wire_elems_length (map embed vs)); lia].
    cbn [rev app]. rewrite embed_values by assumption. reflexivity.
  - exact (H2 H).
Qed.

Corollary roundtrip_ok vs bs : wf_values vs -> serialize vs = Ok bs -> deserialize_rest bs = Ok (vs, []).
Proof.
  intros Hwf E. destruct (roundtrip vs Hwf) as [H1 H2].
  destruct (expressible_all vs) eqn:Ex.
  - destruct (H1 eq_refl) as [bs' [E' D]]. rewrite E in E'. inversion E'; subst. exact D.
  - destruct (H2 eq_refl) as [e E']. rewrite E in E'. discriminate.
Qed.

(* ------------------------------------------------------------------ C12: the encoder is the reference encoder *)
Lemma ref_encode_wire v : ref_encode v = if expressible v then Some (wire_bytes (embed v)) else None.
Proof.
  induction v as [b|b|s|ps IH|vs IH| |] using value_ind2; try reflexivity.
  - rewrite expressible_object, embed_object, wire_bytes_object.
    assert (G : (fix props (ps : list (bytes * value)) : option bytes :=
        match ps with
        | [] => Some []
        | (name, pv) :: rest =>
            if (1 <=? lenN name) && (lenN name <=? 65535) then
              match ref_encode pv, props rest with
              | Some bv, Some br => Some (be16 (lenN name) ++ name ++ bv ++ br)
              | _, _ => None
              end
            else None
        end) ps = if expressible_props ps then Some (wire_props_bytes (embed_props ps)) else None).
    { induction ps as [|[k x] r IHr]; [reflexivity|]. inversion IH as [|? ? Hx Hr]; subst. cbn [snd] in Hx.
      rewrite IHr by assumption. rewrite Hx. cbn [expressible_props embed_props wire_props_bytes].
      destruct ((1 <=? lenN k) && (lenN k <=? 65535)); [|reflexivity]. cbn [andb].
      destruct (expressible x); [|reflexivity]. cbn [andb]. destruct (expressible_props r); reflexivity. }
    cbn [ref_encode]. rewrite G. destruct (expressible_props ps); reflexivity.
  - rewrite expressible_array. cbn [embed]. rewrite wire_bytes_array.
    assert (G : (fix elems (vs : list value) : option bytes :=
        match vs with
        | [] => Some []
        | x :: rest => match ref_encode x, elems rest with
                       | Some bx, Some br => Some (bx ++ br)
                       | _, _ => None
                       end
        end) vs = if expressible_all vs then Some (wire_elems_bytes (map embed vs)) else None).
    { induction vs as [|x r IHr]; [reflexivity|]. inversion IH as [|? ? Hx Hr]; subst.
      rewrite IHr by assumption. rewrite Hx. cbn [expressible_all map wire_elems_bytes].
      destruct (expressible x); [|reflexivity]. cbn [andb]. destruct (expressible_all r); reflexivity. }
    cbn [ref_encode]. rewrite G. rewrite lenN_map. destruct (expressible_all vs); reflexivity.
Qed.

Theorem encode_is_spec v : wf_value v ->
  match ref_encode v with
  | Some b => encode_value v = Ok b
  | None => exists e, encode_value v = Err e
  end.
Proof.
  intros Hwf. rewrite ref_encode_wire. destruct (encode_wire v Hwf) as [H1 H2].
  destruct (expressible v); [exact (proj1 (H1 eq_refl))|exact (H2 eq_refl)].
Qed.

(* ------------------------------------------------------------------ unsupported markers *)
Definition known_marker (m : N) : bool :=
  (m =? 0) || (m =? 1) || (m =? 2) || (m =? 3) || (m =? 5) || (m =? 6) || (m =? 8) || (m =? 9) || (m =? 10).

Lemma unknown_marker m r f : known_marker m = false -> read_next_value (S f) (m :: r) = Err (UnknownMarker m).
Proof.
  unfold known_marker. intros H.
  repeat (apply orb_false_elim in H; destruct H as [H ?]).
  cbn [read_next_value]. markers.
  repeat match goal with E : (m =? _) = false |- _ => rewrite E; clear E end. reflexivity.
Qed.

Lemma end_marker_stops r f : read_next_value (S f) (9 :: r) = Ok (None, r).
Proof. reflexivity. Qed.

Lemma unknown_marker_toplevel m r : known_marker m = false -> deserialize (m :: r) = Err (UnknownMarker m).
Proof.
  intros H. unfold deserialize, deserialize_rest. cbn [read_all]. rewrite unknown_marker by assumption. reflexivity.
Qed.
