(* C02 as one statement per direction: from a connected pair with linked chunk layers and enough window headroom for the command
   exchange, publish (or play) completes on both sides, EVERY sequence of media items is raised exactly once, in order, byte-exact
   under the application name and stream key - whatever the windows do during the media phase - and stopping raises the matching
   finished event. *)
From Coq Require Import ZArith Lia ZifyN ZifyBool ZifyNat String.
From RML Require Import Model.Base Model.Utf8 Model.Chunk Model.ChunkSer Model.ChunkDe Model.Amf0 Model.Messages Model.SessionCommon
  Model.Server Model.Client Proofs.ChunkSerProofs Proofs.ConfigProofs Proofs.InteropProofs Proofs.ServerProofs Proofs.SessionFrame
  Proofs.ProtocolProofs Proofs.ProtocolFlow Proofs.AckHeadroom.
Local Open Scope N_scope.

(* the media phase keeps what the stop needs *)
Lemma publish_run_keeps items : forall c s clock sid app key,
  Link (cl_ser c) (sv_de s) -> ser_ok (cl_ser c) -> ser_ok (sv_ser s) -> publishing_stream c = Ok sid -> sid < 4294967296 ->
  sv_connected s = true -> publishing_key s sid = Some (app, key) -> Forall item_wf items ->
  exists c' s', publish_run c s items clock =
    Some (c', s', map (fun i => match i with Item video data ts _ => media_event video app key data ts end) items) /\
    Link (cl_ser c') (sv_de s') /\ ser_ok (cl_ser c') /\ ser_ok (sv_ser s') /\ publishing_stream c' = Ok sid /\
    sv_connected s' = true /\ publishing_key s' sid = Some (app, key).
Proof.
  induction items as [|[video data ts drop] r IH]; intros c s clock sid app key HL Hcs Hser Hps Hsid Hc Hk Hwf.
  - exists c, s. repeat split; assumption.
  - inversion Hwf as [|? ? Hi Hr]; subst. cbn [item_wf] in Hi. destruct Hi as [Hts Hd].
    destruct (publish_media_delivered c s video data ts drop clock sid app key HL Hser Hps Hsid Hts Hd Hc Hk)
      as [b [c1 [s1 [rs [E1 [E2 [Hev [HL1 [Hser1 [Hps1 [Hc1 Hk1]]]]]]]]]]].
    assert (Hcs1 : ser_ok (cl_ser c1)).
    { pose proof (client_step_good c (CopMedia video data ts drop) Hcs) as [_ Hg]. cbn [client_step] in Hg. rewrite E1 in Hg. exact Hg. }
    destruct (IH c1 s1 clock sid app key HL1 Hcs1 Hser1 Hps1 Hsid Hc1 Hk1 Hr) as [c2 [s2 [E3 Hinv]]].
    exists c2, s2. split; [|exact Hinv]. cbn [publish_run map]. rewrite E1, E2, E3, Hev. reflexivity.
Qed.

Theorem publish_session c s app key t items k1 k2 k3 k4 k5 k6 k7 km ks1 ks2 :
  Link (cl_ser c) (sv_de s) -> Link (sv_ser s) (cl_de c) -> ser_ok (cl_ser c) -> ser_ok (sv_ser s) ->
  cl_state c = Connected -> cl_next_tr c < 4294967296 -> sv_next_stream s < 4294967296 ->
  sv_connected s = true -> sv_app s = Some app -> utf8_valid key = true -> lenN key <= 65000 ->
  k1 < 4294967296 -> k2 < 4294967296 -> k3 < 4294967296 -> k5 < 4294967296 -> ks1 < 4294967296 ->
  (forall w, ack_window (sv_ack s) = Some w -> ack_since (sv_ack s) + 2 * (17 * (lenN key + 200) + 16) < w) ->
  (forall w, ack_window (cl_ack c) = Some w -> ack_since (cl_ack c) + 3 * (17 * (lenN key + 200) + 16) < w) ->
  Forall item_wf items ->
  exists c1 b1 s1 b2 c2 b3 s2 s3 b4 b5 c3 c4 c5 s4 c6 b6 s5 r,
    (* publish completes on both sides *)
    client_request_publishing c key t k1 = (c1, COk [CPacket b1 false]) /\
    server_handle_input s b1 k2 = (s1, ROk [SPacket b2 false]) /\
    client_handle_input c1 b2 k3 = (c2, COk [CPacket b3 false]) /\
    server_handle_input s1 b3 k4 = (s2, ROk [SEvent (EvPublishRequested (sv_next_req s) app key (mode_of_type t))]) /\
    server_accept s2 (sv_next_req s) k5 = (s3, ROk [SPacket b4 false; SPacket b5 false]) /\
    client_handle_input c2 b4 k6 = (c3, COk []) /\
    client_handle_input c3 b5 k7 = (c4, COk [CEvent CPublishAccepted]) /\
    (* every item is raised exactly once, in order, byte-exact, under the application name and the stream key *)
    publish_run c4 s3 items km =
      Some (c5, s4, map (fun i => match i with Item video data ts _ => media_event video app key data ts end) items) /\
    (* stopping raises the matching finished event *)
    client_stop_publishing c5 ks1 = (c6, COk [CPacket b6 false]) /\ cl_state c6 = Connected /\
    server_handle_input s4 b6 ks2 = (s5, ROk r) /\ events r = [EvPublishFinished app key].
Proof.
  intros HL1 HL2 Hcs Hss Hst Htr Hid Hconn Happ Hkey Hkl K1 K2 K3 K5 KS HWs HWc Hitems.
  destruct (publish_completes_windows c s app key t k1 k2 k3 k4 k5 k6 k7 HL1 HL2 Hcs Hss Hst Htr Hid Hconn Happ Hkey Hkl K1 K2 K3 K5 HWs HWc)
    as [c1 [b1 [s1 [b2 [c2 [b3 [s2 [s3 [b4 [b5 [c3 [c4 [E1 [E2 [E3 [E4 [E5 [E6 [E7 [Hps [Hpk [HLa [HLb [Hcs4 [Hss3 Hconn3]]]]]]]]]]]]]]]]]]]]]]]]].
  destruct (publish_run_keeps items c4 s3 km (sv_next_stream s) app key HLa Hcs4 Hss3 Hps Hid Hconn3 Hpk Hitems)
    as [c5 [s4 [Erun [HL5 [Hcs5 [Hss4 [Hps5 [Hconn4 Hpk4]]]]]]]].
  assert (Hst5 : cl_state c5 = Publishing /\ cl_stream c5 = Some (sv_next_stream s)).
  { unfold publishing_stream in Hps5. destruct (cl_state c5); try discriminate Hps5. destruct (cl_stream c5) as [x|]; [|discriminate Hps5].
    injection Hps5 as ->. split; reflexivity. }
  destruct Hst5 as [Hst5 Hstr5].
  destruct (proj1 (publishing_key_spec s4 (sv_next_stream s) app key) Hpk4) as [Happ4 [mode Hlk]].
  destruct (stop_publishing_raises_finished c5 s4 (sv_next_stream s) app key mode ks1 ks2 HL5 Hcs5 Hss4 Hst5 Hstr5 Hid KS Hconn4 Happ4 Hlk)
    as [c6 [b6 [s5 [r [F1 [F2 [F3 [F4 [F5 _]]]]]]]]].
  exists c1, b1, s1, b2, c2, b3, s2, s3, b4, b5, c3, c4, c5, s4, c6, b6, s5, r.
  repeat (split; [assumption|]). exact F5.
Qed.

(* ================================================================ the play side *)
(* Media flows server -> client; the client may owe Acknowledgements, which travel client -> server and must be read by the server
   before the deleteStream that follows them.  The media phase is followed with the client's own output packets. *)
From RML Require Import Proofs.ProtocolStart Proofs.SessionPartition Proofs.MessageProofs Spec.Amf0Wire.

Definition cpacket_list (rs : list cresult) : list bytes := flat_map (fun r => match r with CPacket b _ => [b] | _ => [] end) rs.

Lemma client_receives_media_out c b clock video data sid ts de1 de3 :
  ser_ok (cl_ser c) -> clock < 4294967296 ->
  get_next_message (cl_de c) b = (de1, DMsg {| m_ts := ts; m_tid := media_tid video; m_sid := sid; m_data := data |}) ->
  get_next_message de1 [] = (de3, DNone) -> playing_on c sid ->
  exists c' pre, client_handle_input c b clock = (c', COk (pre ++ [CEvent (cmedia_event video data ts)])) /\
    cl_de c' = de3 /\ ser_ok (cl_ser c') /\ playing_on c' sid /\ cl_state c' = cl_state c /\
    sends (cl_ser c) (cpacket_list pre) (cl_ser c') /\ cevents pre = [].
Proof.
  intros Hser Hclk H1 H2 Hp. unfold client_handle_input.
  destruct (ack_step (cl_ack c) (lenN b)) as [a [n|]] eqn:Ea.
  - destruct (ack_send_ok (cl_ser c) n clock Hser) as [bk [ser2 [Ek Hser2]]]. rewrite Ek.
    rewrite (ch_loop_media _ (cupd_ack (cupd_ser c ser2) a) b clock [CPacket bk false] video data sid ts de1 de3 H1 H2 Hp).
    eexists. exists [CPacket bk false]. split; [reflexivity|]. split; [reflexivity|]. split; [exact Hser2|]. split; [exact Hp|]. split; [reflexivity|].
    split; [|reflexivity]. cbn [cpacket_list flat_map List.app cl_ser cupd_de cupd_ack cupd_ser].
    assert (Hn : n < 4294967296).
    { unfold ack_step in Ea. destruct (ack_window (cl_ack c)) as [w|]; [|discriminate Ea]. cbv zeta in Ea.
      destruct (w <=? _); [|discriminate Ea]. injection Ea as _ <-. unfold u32_sat_add. lia. }
    eapply (sends_msg (cl_ser c) (MAcknowledgement n) clock false bk ser2); [|exact Hclk|exact Ek|apply sends_nil].
    right. right. right. right. exists n. split; [reflexivity|exact Hn].
  - rewrite (ch_loop_media _ (cupd_ack c a) b clock [] video data sid ts de1 de3 H1 H2 Hp).
    eexists. exists []. split; [reflexivity|]. split; [reflexivity|]. split; [exact Hser|]. split; [exact Hp|]. split; [reflexivity|].
    split; [apply sends_nil|reflexivity].
Qed.

Lemma sends_app a l1 b : sends a l1 b -> forall l2 c, sends b l2 c -> sends a (l1 ++ l2) c.
Proof.
  induction 1 as [ser|ser m ts f bk ser1 bs ser' Hn Hts Hsend Hrest IH|ser n ts bk ser1 bs ser' Hn Hts Hset Hrest IH]; intros l2 c H2.
  - exact H2.
  - cbn [List.app]. eapply sends_msg; [exact Hn|exact Hts|exact Hsend|apply IH; exact H2].
  - cbn [List.app]. eapply sends_size; [exact Hn|exact Hts|exact Hset|apply IH; exact H2].
Qed.

(* the server reads such control packets without changing its workflow state *)
Theorem server_notes ser ser' b s m ts sclock f :
  noted m -> Link ser (sv_de s) -> ser_ok (sv_ser s) -> ts < 4294967296 ->
  send_message ser m ts 0 f false = Ok (b, ser') ->
  exists s2 r, server_handle_input s b sclock = (s2, ROk r) /\ same_core s s2 /\ Link ser' (sv_de s2) /\ ser_ok (sv_ser s2).
Proof.
  intros Hn HL Hss Hts Hsend.
  assert (Hok : msg_ok m /\ plain m).
  { destruct Hn as [[w [-> Hw]]|[ -> |[[n [l0 [-> Hb]]] | [ -> | [n [-> Hb]]]]]]; (split; [|exact I]).
    - exact Hw.
    - cbn [msg_ok]. split; [exists 0; split; [reflexivity|unfold MessageProofs.u32; lia]|split; reflexivity].
    - exact Hb.
    - cbn [msg_ok bwdone Amf0Wire.wf_values Amf0Wire.wf_value]. repeat split; try reflexivity; lia.
    - exact Hb. }
  destruct Hok as [Hok Hpl].
  destruct (server_receives s ser m ts 0 f false b ser' sclock HL Hss Hok Hpl Hts ltac:(lia) Hsend)
    as [pk [de1 [de3 [s0 [pre [Hof [Hsid [Htsp [Hc0 [Hd0 [Hs0 [Hpre [Hq [Hack [HL2 Hrun]]]]]]]]]]]]]]].
  assert (Hm : exists s1 rs, h_message (upd_de s0 de1) pk sclock = (s1, ROk rs) /\ same_core (upd_de s0 de1) s1 /\ sv_ser s1 = sv_ser s0).
  { unfold h_message. rewrite Hof.
    destruct Hn as [[w [-> Hw]]|[ -> |[[n [l0 [-> Hb]]] | [ -> | [n [-> Hb]]]]]]; cbv iota.
    - eexists. eexists. split; [reflexivity|]. split; [repeat split|reflexivity].
    - eexists. eexists. split; [reflexivity|]. split; [repeat split|reflexivity].
    - eexists. eexists. split; [reflexivity|]. split; [repeat split|reflexivity].
    - unfold bwdone. cbv iota. unfold h_command. eqb_strs. eexists. eexists. split; [reflexivity|]. split; [repeat split|reflexivity].
    - eexists. eexists. split; [reflexivity|]. split; [repeat split|reflexivity]. }
  destruct Hm as [s1 [rs [Hm [Hcore Hser1]]]]. rewrite Hm in Hrun. cbv iota beta in Hrun.
  eexists. eexists. split; [exact Hrun|].
  destruct Hc0 as [A1 [A2 [A3 [A4 [A5 [A6 [A7 A8]]]]]]]. destruct Hcore as [B1 [B2 [B3 [B4 [B5 [B6 [B7 B8]]]]]]].
  cbn [sv_app sv_reqs sv_next_req sv_connected sv_streams sv_next_stream sv_objenc sv_fms upd_de] in *.
  split; [unfold same_core; cbn [sv_app sv_reqs sv_next_req sv_connected sv_streams sv_next_stream sv_objenc sv_fms upd_de]; repeat split; congruence|].
  split; [exact HL2|]. cbn [sv_ser upd_de]. rewrite Hser1. exact Hs0.
Qed.

Fixpoint sdeliver (s : server) (ps : list bytes) (clock : N) : option server :=
  match ps with
  | [] => Some s
  | p :: r => match server_handle_input s p clock with (s1, ROk _) => sdeliver s1 r clock | _ => None end
  end.

Lemma same_core_trans a b c : same_core a b -> same_core b c -> same_core a c.
Proof. unfold same_core. intros [A1 [A2 [A3 [A4 [A5 [A6 [A7 A8]]]]]]] [B1 [B2 [B3 [B4 [B5 [B6 [B7 B8]]]]]]]. repeat split; congruence. Qed.

Theorem server_absorbs ser bs ser' : sends ser bs ser' -> forall s clock,
  Link ser (sv_de s) -> ser_ok (sv_ser s) ->
  exists s', sdeliver s bs clock = Some s' /\ same_core s s' /\ Link ser' (sv_de s') /\ ser_ok (sv_ser s').
Proof.
  induction 1 as [ser|ser m ts f b ser1 bs ser' Hn Hts Hsend Hrest IH|ser n ts b ser1 bs ser' Hn Hts Hset Hrest IH]; intros s clock HL Hss.
  - exists s. split; [reflexivity|]. split; [apply same_core_refl|]. split; [exact HL|exact Hss].
  - destruct (server_notes ser ser1 b s m ts clock f Hn HL Hss Hts Hsend) as [s2 [r [Hin [Hcore [HL2 Hs2]]]]].
    destruct (IH s2 clock HL2 Hs2) as [s' [Hd [Hcore' [HL' Hs']]]].
    exists s'. cbn [sdeliver]. rewrite Hin. split; [exact Hd|]. split; [exact (same_core_trans _ _ _ Hcore Hcore')|]. split; [exact HL'|exact Hs'].
  - destruct (server_receives_chunk_size s ser n ts b ser1 clock HL Hss Hn Hts Hset) as [s2 [r [Hin [_ [Hcore [HL2 [Hs2 _]]]]]]].
    destruct (IH s2 clock HL2 Hs2) as [s' [Hd [Hcore' [HL' Hs']]]].
    exists s'. cbn [sdeliver]. rewrite Hin. split; [exact Hd|]. split; [exact (same_core_trans _ _ _ Hcore Hcore')|]. split; [exact HL'|exact Hs'].
Qed.

(* the media phase, server -> client, with the client's own output collected *)
Fixpoint play_run2 (s : server) (c : client) (sid : N) (items : list item) (clock : N)
  : option (server * client * list cevent * list bytes) :=
  match items with
  | [] => Some (s, c, [], [])
  | Item video data ts drop :: r =>
    match server_send_media video s sid data ts drop with
    | (s', ROk [SPacket b _]) =>
      match client_handle_input c b clock with
      | (c', COk rs) =>
        match play_run2 s' c' sid r clock with
        | Some (s2, c2, evs, out) => Some (s2, c2, cevents rs ++ evs, cpacket_list rs ++ out)
        | None => None
        end
      | _ => None
      end
    | _ => None
    end
  end.

Lemma cpacket_list_app a b : cpacket_list (a ++ b) = cpacket_list a ++ cpacket_list b.
Proof. unfold cpacket_list. apply flat_map_app. Qed.

Theorem play_run_keeps items : forall s c sid clock,
  Link (sv_ser s) (cl_de c) -> ser_ok (cl_ser c) -> ser_ok (sv_ser s) -> playing_on c sid -> sid < 4294967296 -> clock < 4294967296 ->
  Forall item_wf items ->
  exists s' c' out,
    play_run2 s c sid items clock =
      Some (s', c', map (fun i => match i with Item video data ts _ => cmedia_event video data ts end) items, out) /\
    Link (sv_ser s') (cl_de c') /\ ser_ok (cl_ser c') /\ ser_ok (sv_ser s') /\ playing_on c' sid /\ cl_state c' = cl_state c /\
    sends (cl_ser c) out (cl_ser c') /\ same_core s s' /\ sv_de s' = sv_de s.
Proof.
  induction items as [|[video data ts drop] r IH]; intros s c sid clock HL Hcs Hss Hp Hsid Hclk Hwf.
  - exists s, c, []. split; [reflexivity|]. repeat (split; [first [assumption|reflexivity|apply sends_nil|apply same_core_refl]|]). reflexivity.
  - inversion Hwf as [|? ? Hi Hr]; subst. cbn [item_wf] in Hi. destruct Hi as [Hts Hd].
    set (m := {| m_ts := ts; m_tid := media_tid video; m_sid := sid; m_data := data |}).
    assert (Hwfm : msg_wf m).
    { unfold msg_wf, m. cbn [m_ts m_tid m_sid m_data]. repeat split; try assumption. destruct video; cbn; lia. }
    assert (Htid : m_tid m <> 1) by (destruct video; cbn; lia).
    destruct (link_message (sv_ser s) (cl_de c) m false drop HL Hwfm Htid) as [b [ser' [de1 [de3 [Hs [G1 [G2 HL2]]]]]]].
    destruct (client_receives_media_out c b clock video data sid ts de1 de3 Hcs Hclk G1 G2 Hp)
      as [c1 [pre [Hin [Hde [Hcs1 [Hp1 [Hst1 [Hsends Hpre]]]]]]]].
    assert (Esend : server_send_media video s sid data ts drop = (upd_ser s ser', ROk [SPacket b drop])).
    { unfold m in Hs. unfold server_send_media. destruct video; cbn [media_tid] in Hs;
        unfold server_send_video, server_send_audio, one_packet, sending, send_message.
      - change (to_payload (MVideoData data)) with (@Ok (N * bytes) msg_ser_err (9, data)). cbv iota beta. rewrite Hs. reflexivity.
      - change (to_payload (MAudioData data)) with (@Ok (N * bytes) msg_ser_err (8, data)). cbv iota beta. rewrite Hs. reflexivity. }
    assert (Hss1 : ser_ok ser').
    { destruct (serialize_refused_or_ok (sv_ser s) m false drop Hss) as [_ Hok]. destruct Hwfm as [_ [_ [_ Hl]]].
      destruct (Hok Hl) as [b' [st' [E' Hmx]]]. rewrite Hs in E'. injection E' as <- <-. unfold ser_ok. rewrite Hmx. exact Hss. }
    destruct (IH (upd_ser s ser') c1 sid clock ltac:(cbn [sv_ser upd_ser]; rewrite Hde; exact HL2) Hcs1 Hss1 Hp1 Hsid Hclk Hr)
      as [s2 [c2 [out [E3 [HL3 [Hcs2 [Hss2 [Hp2 [Hst2 [Hsends2 [Hcore Hde2]]]]]]]]]]].
    exists s2, c2, (cpacket_list pre ++ out). cbn [play_run2 map]. rewrite Esend, Hin, E3.
    split. { rewrite cevents_pre by exact Hpre. rewrite cpacket_list_app. cbn [cevents flat_map List.app cpacket_list]. rewrite app_nil_r. reflexivity. }
    split; [exact HL3|]. split; [exact Hcs2|]. split; [exact Hss2|]. split; [exact Hp2|]. split; [rewrite Hst2; exact Hst1|].
    split; [exact (sends_app _ _ _ Hsends _ _ Hsends2)|]. split; [|rewrite Hde2; reflexivity].
    destruct Hcore as [B1 [B2 [B3 [B4 [B5 [B6 [B7 B8]]]]]]]. repeat split; assumption.
Qed.

Theorem play_session c s app key items k1 k2 k3 k4 k5 k6 t1 t2 t3 t4 t5 km kd ks1 ks2 :
  Link (cl_ser c) (sv_de s) -> Link (sv_ser s) (cl_de c) -> ser_ok (cl_ser c) -> ser_ok (sv_ser s) ->
  cl_state c = Connected -> cl_next_tr c < 4294967296 -> sv_next_stream s < 4294967296 -> cc_buffer (cl_cfg c) < 4294967296 ->
  sv_connected s = true -> sv_app s = Some app -> utf8_valid key = true -> lenN key <= 65000 ->
  k1 < 4294967296 -> k2 < 4294967296 -> k3 < 4294967296 -> k6 < 4294967296 -> km < 4294967296 -> ks1 < 4294967296 ->
  (forall w, ack_window (sv_ack s) = Some w -> ack_since (sv_ack s) + 3 * (17 * (lenN key + 200) + 16) < w) ->
  (forall w, ack_window (cl_ack c) = Some w -> ack_since (cl_ack c) + 6 * (17 * (lenN key + 200) + 16) < w) ->
  Forall item_wf items ->
  exists c1 b1 s1 b2 c2 b3 b4 s2 s3 s4 p1 p2 p3 p4 p5 c3 c4 c5 c6 c7 s5 c8 out s6 c9 b9 s7 r,
    (* play completes on both sides *)
    client_request_playback c key k1 = (c1, COk [CPacket b1 false]) /\
    server_handle_input s b1 k2 = (s1, ROk [SPacket b2 false]) /\
    client_handle_input c1 b2 k3 = (c2, COk [CPacket b3 false; CPacket b4 false]) /\
    server_handle_input s1 b3 k4 = (s2, ROk []) /\
    server_handle_input s2 b4 k5 = (s3, ROk [SEvent (EvPlayRequested (sv_next_req s) app key LiveOrRecorded None false (sv_next_stream s))]) /\
    server_accept s3 (sv_next_req s) k6 = (s4, ROk [SPacket p1 false; SPacket p2 false; SPacket p3 false; SPacket p4 false; SPacket p5 false]) /\
    client_handle_input c2 p1 t1 = (c3, COk [CEvent (CUnhandleableStatus (str "NetStream.Play.Reset"))]) /\
    client_handle_input c3 p2 t2 = (c4, COk []) /\
    client_handle_input c4 p3 t3 = (c5, COk [CEvent CPlaybackAccepted]) /\
    client_handle_input c5 p4 t4 = (c6, COk []) /\
    client_handle_input c6 p5 t5 = (c7, COk []) /\
    (* every item the server sends is raised by the client exactly once, in order, byte-exact; `out` = what the client wrote meanwhile
       (Acknowledgements, whenever its counter reached the server's window) *)
    play_run2 s4 c7 (sv_next_stream s) items km =
      Some (s5, c8, map (fun i => match i with Item video data ts _ => cmedia_event video data ts end) items, out) /\
    (* the server reads those, then the stop: exactly the matching finished event *)
    sdeliver s5 out kd = Some s6 /\
    client_stop_playback c8 ks1 = (c9, COk [CPacket b9 false]) /\ cl_state c9 = Connected /\
    server_handle_input s6 b9 ks2 = (s7, ROk r) /\ events r = [EvPlayFinished app key].
Proof.
  intros HL1 HL2 Hcs Hss Hst Htr Hid Hbuf Hconn Happ Hkey Hkl K1 K2 K3 K6 KM KS HWs HWc Hitems.
  destruct (play_completes_windows c s app key k1 k2 k3 k4 k5 k6 t1 t2 t3 t4 t5 HL1 HL2 Hcs Hss Hst Htr Hid Hbuf Hconn Happ Hkey Hkl K1 K2 K3 K6 HWs HWc)
    as [c1 [b1 [s1 [b2 [c2 [b3 [b4 [s2 [s3 [s4 [p1 [p2 [p3 [p4 [p5 [c3 [c4 [c5 [c6 [c7
        [E1 [E2 [E3 [E4 [E5 [E6 [E7 [E8 [E9 [E10 [E11 [Hst7 [Hp7 [Hlk4 [Happ4 [Hconn4 [HLa [HLb [Hcs7 Hss4]]]]]]]]]]]]]]]]]]]]]]]]]]]]]]]]]]]]]]].
  destruct (play_run_keeps items s4 c7 (sv_next_stream s) km HLb Hcs7 Hss4 Hp7 Hid KM Hitems)
    as [s5 [c8 [out [Erun [HL8 [Hcs8 [Hss5 [Hp8 [Hst8 [Hsends [Hcore5 Hde5]]]]]]]]]]].
  destruct (server_absorbs (cl_ser c7) out (cl_ser c8) Hsends s5 kd ltac:(rewrite Hde5; exact HLa) Hss5)
    as [s6 [Edel [Hcore6 [HL6 Hss6]]]].
  destruct Hcore5 as [A1 [A2 [A3 [A4 [A5 [A6 [A7 A8]]]]]]]. destruct Hcore6 as [B1 [B2 [B3 [B4 [B5 [B6 [B7 B8]]]]]]].
  destruct Hp8 as [_ Hstr8].
  destruct (stop_playback_raises_finished c8 s6 (sv_next_stream s) app key ks1 ks2 HL6 Hcs8 Hss6 ltac:(rewrite Hst8; exact Hst7) Hstr8 Hid KS
              ltac:(rewrite B4, A4; exact Hconn4) ltac:(rewrite B1, A1; exact Happ4) ltac:(rewrite B5, A5; exact Hlk4))
    as [c9 [b9 [s7 [r [F1 [F2 [F3 [F4 [F5 _]]]]]]]]].
  exists c1, b1, s1, b2, c2, b3, b4, s2, s3, s4, p1, p2, p3, p4, p5, c3, c4, c5, c6, c7, s5, c8, out, s6, c9, b9, s7, r.
  repeat (split; [assumption|]). exact F5.
Qed.

(* ================================================================ media AND metadata items, publishing side *)
From RML Require Import Proofs.MetadataProofs Proofs.InteropMetadata Proofs.MetadataFits Proofs.PlayMetadata.

Inductive pitem := PMedia (video : bool) (data : bytes) (ts : N) (drop : bool) | PMeta (md : metadata) (clock : N).
Definition pitem_wf (i : pitem) : Prop :=
  match i with PMedia _ data ts _ => ts < 4294967296 /\ data_wf data | PMeta md clock => md_ok md /\ enc_ok md /\ clock < 4294967296 end.
Definition pitem_event (app key : bytes) (i : pitem) : sevent :=
  match i with PMedia video data ts _ => media_event video app key data ts | PMeta md _ => EvMetadata app key md end.

Fixpoint publish_run3 (c : client) (s : server) (items : list pitem) (clock : N) : option (client * server * list sevent) :=
  match items with
  | [] => Some (c, s, [])
  | i :: r =>
    match (match i with PMedia video data ts drop => client_publish_media video c data ts drop | PMeta md k => client_publish_metadata c md k end) with
    | (c', COk [CPacket b _]) =>
      match server_handle_input s b clock with
      | (s', ROk rs) => match publish_run3 c' s' r clock with Some (c2, s2, evs) => Some (c2, s2, events rs ++ evs) | None => None end
      | _ => None
      end
    | _ => None
    end
  end.

Lemma publish_run3_keeps items : forall c s clock sid app key,
  Link (cl_ser c) (sv_de s) -> ser_ok (cl_ser c) -> ser_ok (sv_ser s) -> publishing_stream c = Ok sid -> sid < 4294967296 ->
  sv_connected s = true -> publishing_key s sid = Some (app, key) -> Forall pitem_wf items ->
  exists c' s', publish_run3 c s items clock = Some (c', s', map (pitem_event app key) items) /\
    Link (cl_ser c') (sv_de s') /\ ser_ok (cl_ser c') /\ ser_ok (sv_ser s') /\ publishing_stream c' = Ok sid /\
    sv_connected s' = true /\ publishing_key s' sid = Some (app, key).
Proof.
  induction items as [|i r IH]; intros c s clock sid app key HL Hcs Hser Hps Hsid Hc Hk Hwf.
  - exists c, s. repeat split; assumption.
  - inversion Hwf as [|? ? Hi Hr]; subst. destruct i as [video data ts drop|md k]; cbn [pitem_wf] in Hi.
    + destruct Hi as [Hts Hd].
      destruct (publish_media_delivered c s video data ts drop clock sid app key HL Hser Hps Hsid Hts Hd Hc Hk)
        as [b [c1 [s1 [rs [E1 [E2 [Hev [HL1 [Hser1 [Hps1 [Hc1 Hk1]]]]]]]]]]].
      assert (Hcs1 : ser_ok (cl_ser c1)).
      { pose proof (client_step_good c (CopMedia video data ts drop) Hcs) as [_ Hg]. cbn [client_step] in Hg. rewrite E1 in Hg. exact Hg. }
      destruct (IH c1 s1 clock sid app key HL1 Hcs1 Hser1 Hps1 Hsid Hc1 Hk1 Hr) as [c2 [s2 [E3 Hinv]]].
      exists c2, s2. split; [|exact Hinv]. cbn [publish_run3 map pitem_event]. rewrite E1, E2, E3, Hev. reflexivity.
    + destruct Hi as [Hm [He Hk0]].
      destruct (publish_metadata_always_delivered c s md k clock sid app key HL Hcs Hser Hps Hsid Hk0 Hm He Hc Hk)
        as [b [c1 [s1 [rs [E1 [E2 [Hev [HL1 [Hcs1 [Hser1 [Hps1 [Hc1 Hk1]]]]]]]]]]]].
      destruct (IH c1 s1 clock sid app key HL1 Hcs1 Hser1 Hps1 Hsid Hc1 Hk1 Hr) as [c2 [s2 [E3 Hinv]]].
      exists c2, s2. split; [|exact Hinv]. cbn [publish_run3 map pitem_event]. rewrite E1, E2, E3, Hev. reflexivity.
Qed.

(* C02_publish_session for sequences of metadata, audio and video items *)
Theorem publish_session_all_items c s app key t items k1 k2 k3 k4 k5 k6 k7 km ks1 ks2 :
  Link (cl_ser c) (sv_de s) -> Link (sv_ser s) (cl_de c) -> ser_ok (cl_ser c) -> ser_ok (sv_ser s) ->
  cl_state c = Connected -> cl_next_tr c < 4294967296 -> sv_next_stream s < 4294967296 ->
  sv_connected s = true -> sv_app s = Some app -> utf8_valid key = true -> lenN key <= 65000 ->
  k1 < 4294967296 -> k2 < 4294967296 -> k3 < 4294967296 -> k5 < 4294967296 -> ks1 < 4294967296 ->
  (forall w, ack_window (sv_ack s) = Some w -> ack_since (sv_ack s) + 2 * (17 * (lenN key + 200) + 16) < w) ->
  (forall w, ack_window (cl_ack c) = Some w -> ack_since (cl_ack c) + 3 * (17 * (lenN key + 200) + 16) < w) ->
  Forall pitem_wf items ->
  exists c1 b1 s1 b2 c2 b3 s2 s3 b4 b5 c3 c4 c5 s4 c6 b6 s5 r,
    client_request_publishing c key t k1 = (c1, COk [CPacket b1 false]) /\
    server_handle_input s b1 k2 = (s1, ROk [SPacket b2 false]) /\
    client_handle_input c1 b2 k3 = (c2, COk [CPacket b3 false]) /\
    server_handle_input s1 b3 k4 = (s2, ROk [SEvent (EvPublishRequested (sv_next_req s) app key (mode_of_type t))]) /\
    server_accept s2 (sv_next_req s) k5 = (s3, ROk [SPacket b4 false; SPacket b5 false]) /\
    client_handle_input c2 b4 k6 = (c3, COk []) /\
    client_handle_input c3 b5 k7 = (c4, COk [CEvent CPublishAccepted]) /\
    publish_run3 c4 s3 items km = Some (c5, s4, map (pitem_event app key) items) /\
    client_stop_publishing c5 ks1 = (c6, COk [CPacket b6 false]) /\ cl_state c6 = Connected /\
    server_handle_input s4 b6 ks2 = (s5, ROk r) /\ events r = [EvPublishFinished app key].
Proof.
  intros HL1 HL2 Hcs Hss Hst Htr Hid Hconn Happ Hkey Hkl K1 K2 K3 K5 KS HWs HWc Hitems.
  destruct (publish_completes_windows c s app key t k1 k2 k3 k4 k5 k6 k7 HL1 HL2 Hcs Hss Hst Htr Hid Hconn Happ Hkey Hkl K1 K2 K3 K5 HWs HWc)
    as [c1 [b1 [s1 [b2 [c2 [b3 [s2 [s3 [b4 [b5 [c3 [c4 [E1 [E2 [E3 [E4 [E5 [E6 [E7 [Hps [Hpk [HLa [HLb [Hcs4 [Hss3 Hconn3]]]]]]]]]]]]]]]]]]]]]]]]].
  destruct (publish_run3_keeps items c4 s3 km (sv_next_stream s) app key HLa Hcs4 Hss3 Hps Hid Hconn3 Hpk Hitems)
    as [c5 [s4 [Erun [HL5 [Hcs5 [Hss4 [Hps5 [Hconn4 Hpk4]]]]]]]].
  assert (Hst5 : cl_state c5 = Publishing /\ cl_stream c5 = Some (sv_next_stream s)).
  { unfold publishing_stream in Hps5. destruct (cl_state c5); try discriminate Hps5. destruct (cl_stream c5) as [x|]; [|discriminate Hps5].
    injection Hps5 as ->. split; reflexivity. }
  destruct Hst5 as [Hst5 Hstr5].
  destruct (proj1 (publishing_key_spec s4 (sv_next_stream s) app key) Hpk4) as [Happ4 [mode Hlk]].
  destruct (stop_publishing_raises_finished c5 s4 (sv_next_stream s) app key mode ks1 ks2 HL5 Hcs5 Hss4 Hst5 Hstr5 Hid KS Hconn4 Happ4 Hlk)
    as [c6 [b6 [s5 [r [F1 [F2 [F3 [F4 [F5 _]]]]]]]]].
  exists c1, b1, s1, b2, c2, b3, s2, s3, b4, b5, c3, c4, c5, s4, c6, b6, s5, r.
  repeat (split; [assumption|]). exact F5.
Qed.

(* ================================================================ media AND metadata items, playing side *)
(* the receiving step of ProtocolFlow once more, this time keeping what the client wrote before its results (an Acknowledgement or nothing) *)
Lemma client_handle_packet_out c b clock p de1 de3 :
  ser_ok (cl_ser c) -> clock < 4294967296 ->
  get_next_message (cl_de c) b = (de1, DMsg p) -> get_next_message de1 [] = (de3, DNone) ->
  (forall c0, cl_de (fst (ch_message c0 p clock)) = cl_de c0) ->
  exists c0 pre, (cl_cfg c0 = cl_cfg c /\ cl_next_tr c0 = cl_next_tr c /\ cl_trs c0 = cl_trs c /\ cl_state c0 = cl_state c /\
    cl_app c0 = cl_app c /\ cl_stream c0 = cl_stream c) /\ cl_de c0 = cl_de c /\ ser_ok (cl_ser c0) /\ cevents pre = [] /\
    sends (cl_ser c) (cpacket_list pre) (cl_ser c0) /\
    client_handle_input c b clock =
      (let '(c1, r) := ch_message (cupd_de c0 de1) p clock in
       match r with COk rs => (cupd_de c1 de3, COk (pre ++ rs)) | _ => (c1, r) end).
Proof.
  intros Hser Hclk G1 G2 Hframe. unfold client_handle_input.
  assert (Hloop : forall fuel c0 acc, cl_de c0 = cl_de c ->
            ch_loop (S (S fuel)) c0 b clock acc =
              (let '(c1, r) := ch_message (cupd_de c0 de1) p clock in
               match r with COk rs => (cupd_de c1 de3, COk (acc ++ rs)) | _ => (c1, r) end)).
  { intros fuel c0 acc Hd. cbn [ch_loop]. rewrite Hd, G1. pose proof (Hframe (cupd_de c0 de1)) as Hf. change (cl_de (cupd_de c0 de1)) with de1 in Hf.
    destruct (ch_message (cupd_de c0 de1) p clock) as [c1 r]. cbn [fst] in Hf. destruct r as [rs|e|]; try reflexivity.
    rewrite Hf, G2. reflexivity. }
  destruct (ack_step (cl_ack c) (lenN b)) as [a [n|]] eqn:Ea.
  - destruct (ack_send_ok (cl_ser c) n clock Hser) as [bk [ser2 [Ek Hser2]]]. rewrite Ek.
    assert (Hn : n < 4294967296).
    { unfold ack_step in Ea. destruct (ack_window (cl_ack c)) as [w|]; [|discriminate Ea]. cbv zeta in Ea.
      destruct (w <=? _); [|discriminate Ea]. injection Ea as _ <-. unfold u32_sat_add. lia. }
    exists (cupd_ack (cupd_ser c ser2) a), [CPacket bk false]. split; [repeat split|]. split; [reflexivity|]. split; [exact Hser2|]. split; [reflexivity|].
    split; [|apply Hloop; reflexivity]. cbn [cpacket_list flat_map List.app cl_ser cupd_ack cupd_ser].
    eapply (sends_msg (cl_ser c) (MAcknowledgement n) clock false bk ser2); [|exact Hclk|exact Ek|apply sends_nil].
    right. right. right. right. exists n. split; [reflexivity|exact Hn].
  - exists (cupd_ack c a), []. split; [repeat split|]. split; [reflexivity|]. split; [exact Hser|]. split; [reflexivity|].
    split; [apply sends_nil|apply Hloop; reflexivity].
Qed.

(* a metadata item the server sends: raised by the playing client as exactly that metadata, whatever the windows *)
Theorem play_metadata_out s c sid md clock cclock :
  Link (sv_ser s) (cl_de c) -> ser_ok (cl_ser c) -> ser_ok (sv_ser s) -> playing_on c sid -> sid < 4294967296 ->
  clock < 4294967296 -> cclock < 4294967296 -> md_ok md -> enc_ok md ->
  exists b ser' c' pre,
    server_send_metadata s sid md clock = (upd_ser s ser', ROk [SPacket b false]) /\
    client_handle_input c b cclock = (c', COk (pre ++ [CEvent (CMetadata md)])) /\ cevents pre = [] /\
    Link ser' (cl_de c') /\ ser_ok (cl_ser c') /\ ser_ok ser' /\ playing_on c' sid /\ cl_state c' = cl_state c /\
    sends (cl_ser c) (cpacket_list pre) (cl_ser c').
Proof.
  intros HL Hcs Hss [Hst Hstr] Hsid Hclk Hcclk Hm He.
  destruct (server_send_metadata_ok s sid md clock Hss Hm He) as [b [ser' [Esend [Es Hser']]]].
  set (M := MAmf0Data (smd_values md)) in *.
  assert (Hok : msg_ok M) by (cbn [msg_ok M smd_values wf_values]; split; [reflexivity|split; [exact (md_props_server_wf md Hm He)|exact I]]).
  (* the decoded message, as in ProtocolFlow.client_receives *)
  destruct (send_message_inv _ _ _ _ _ _ _ _ Es) as [tid [body [Etp Eser]]].
  destruct (plain_tid M tid body I Etp) as [Ht1 Ht2].
  pose proof (msg_roundtrip M tid body Hok Etp) as Hof.
  set (p := {| m_ts := clock; m_tid := tid; m_sid := sid; m_data := body |}) in *.
  pose proof HL as [sd [HSim _]].
  destruct (serialize_refused_or_ok (sv_ser s) p false false (Sim_max _ _ HSim)) as [Hbig _].
  assert (Hlen : lenN body <= 16777215).
  { destruct (16777215 <? lenN body) eqn:El; [|lia]. rewrite (Hbig ltac:(cbn [p m_data]; lia)) in Eser. discriminate. }
  assert (Hwf : msg_wf p) by (unfold msg_wf, p; cbn [m_ts m_tid m_sid m_data]; repeat split; lia).
  destruct (link_message (sv_ser s) (cl_de c) p false false HL Hwf Ht2) as [b' [ser2 [de1 [de3 [Hs [G1 [G2 HL2]]]]]]].
  rewrite Eser in Hs. injection Hs as <- <-.
  assert (Hframe : forall c0, cl_de (fst (ch_message c0 p cclock)) = cl_de c0).
  { intros c0. unfold ch_message. cbn [p m_tid m_data]. rewrite Hof. unfold M. apply ch_data_de. }
  destruct (client_handle_packet_out c b cclock p de1 de3 Hcs Hcclk G1 G2 Hframe)
    as [c0 [pre [[E1 [E2 [E3 [E4 [E5 E6]]]]] [Hd0 [Hs0 [Hpre [Hsends Hrun]]]]]]].
  assert (Hmm : ch_message (cupd_de c0 de1) p cclock = (cupd_de c0 de1, COk [CEvent (CMetadata md)])).
  { unfold ch_message. cbn [p m_tid m_data m_sid]. rewrite Hof. unfold M, smd_values. cbv iota. unfold ch_data. cbn [cl_stream cupd_de]. rewrite E6, Hstr, N.eqb_refl.
    rewrite bytes_eqb_refl. rewrite (metadata_roundtrip_server md Hm). reflexivity. }
  rewrite Hmm in Hrun. cbv iota beta in Hrun.
  exists b, ser'. eexists. exists pre. split; [exact Esend|]. split; [exact Hrun|]. split; [exact Hpre|].
  cbn [cl_state cl_stream cl_de cl_ser cupd_de].
  split; [exact HL2|]. split; [exact Hs0|]. split; [exact Hser'|].
  split; [unfold playing_on; cbn [cl_state cl_stream cupd_de]; split; [rewrite E4; exact Hst|rewrite E6; exact Hstr]|]. split; [exact E4|exact Hsends].
Qed.

Definition pitem_cevent (i : pitem) : cevent :=
  match i with PMedia video data ts _ => cmedia_event video data ts | PMeta md _ => CMetadata md end.

Fixpoint play_run3 (s : server) (c : client) (sid : N) (items : list pitem) (clock : N)
  : option (server * client * list cevent * list bytes) :=
  match items with
  | [] => Some (s, c, [], [])
  | i :: r =>
    match (match i with PMedia video data ts drop => server_send_media video s sid data ts drop | PMeta md k => server_send_metadata s sid md k end) with
    | (s', ROk [SPacket b _]) =>
      match client_handle_input c b clock with
      | (c', COk rs) =>
        match play_run3 s' c' sid r clock with
        | Some (s2, c2, evs, out) => Some (s2, c2, cevents rs ++ evs, cpacket_list rs ++ out)
        | None => None
        end
      | _ => None
      end
    | _ => None
    end
  end.

Theorem play_run3_keeps items : forall s c sid clock,
  Link (sv_ser s) (cl_de c) -> ser_ok (cl_ser c) -> ser_ok (sv_ser s) -> playing_on c sid -> sid < 4294967296 -> clock < 4294967296 ->
  Forall pitem_wf items ->
  exists s' c' out,
    play_run3 s c sid items clock = Some (s', c', map pitem_cevent items, out) /\
    Link (sv_ser s') (cl_de c') /\ ser_ok (cl_ser c') /\ ser_ok (sv_ser s') /\ playing_on c' sid /\ cl_state c' = cl_state c /\
    sends (cl_ser c) out (cl_ser c') /\ same_core s s' /\ sv_de s' = sv_de s.
Proof.
  induction items as [|i r IH]; intros s c sid clock HL Hcs Hss Hp Hsid Hclk Hwf.
  - exists s, c, []. split; [reflexivity|]. repeat (split; [first [assumption|reflexivity|apply sends_nil|apply same_core_refl]|]). reflexivity.
  - inversion Hwf as [|? ? Hi Hr]; subst. destruct i as [video data ts drop|md k]; cbn [pitem_wf] in Hi.
    + destruct Hi as [Hts Hd].
      set (m := {| m_ts := ts; m_tid := media_tid video; m_sid := sid; m_data := data |}).
      assert (Hwfm : msg_wf m).
      { unfold msg_wf, m. cbn [m_ts m_tid m_sid m_data]. repeat split; try assumption. destruct video; cbn; lia. }
      assert (Htid : m_tid m <> 1) by (destruct video; cbn; lia).
      destruct (link_message (sv_ser s) (cl_de c) m false drop HL Hwfm Htid) as [b [ser' [de1 [de3 [Hs [G1 [G2 HL2]]]]]]].
      destruct (client_receives_media_out c b clock video data sid ts de1 de3 Hcs Hclk G1 G2 Hp)
        as [c1 [pre [Hin [Hde [Hcs1 [Hp1 [Hst1 [Hsends Hpre]]]]]]]].
      assert (Esend : server_send_media video s sid data ts drop = (upd_ser s ser', ROk [SPacket b drop])).
      { unfold m in Hs. unfold server_send_media. destruct video; cbn [media_tid] in Hs;
          unfold server_send_video, server_send_audio, one_packet, sending, send_message.
        - change (to_payload (MVideoData data)) with (@Ok (N * bytes) msg_ser_err (9, data)). cbv iota beta. rewrite Hs. reflexivity.
        - change (to_payload (MAudioData data)) with (@Ok (N * bytes) msg_ser_err (8, data)). cbv iota beta. rewrite Hs. reflexivity. }
      assert (Hss1 : ser_ok ser').
      { destruct (serialize_refused_or_ok (sv_ser s) m false drop Hss) as [_ Hok]. destruct Hwfm as [_ [_ [_ Hl]]].
        destruct (Hok Hl) as [b' [st' [E' Hmx]]]. rewrite Hs in E'. injection E' as <- <-. unfold ser_ok. rewrite Hmx. exact Hss. }
      destruct (IH (upd_ser s ser') c1 sid clock ltac:(cbn [sv_ser upd_ser]; rewrite Hde; exact HL2) Hcs1 Hss1 Hp1 Hsid Hclk Hr)
        as [s2 [c2 [out [E3 [HL3 [Hcs2 [Hss2 [Hp2 [Hst2 [Hsends2 [Hcore Hde2]]]]]]]]]]].
      exists s2, c2, (cpacket_list pre ++ out). cbn [play_run3 map pitem_cevent]. rewrite Esend, Hin, E3.
      split. { rewrite cevents_pre by exact Hpre. rewrite cpacket_list_app. cbn [cevents flat_map List.app cpacket_list]. rewrite app_nil_r. reflexivity. }
      split; [exact HL3|]. split; [exact Hcs2|]. split; [exact Hss2|]. split; [exact Hp2|]. split; [rewrite Hst2; exact Hst1|].
      split; [exact (sends_app _ _ _ Hsends _ _ Hsends2)|]. split; [|rewrite Hde2; reflexivity].
      destruct Hcore as [B1 [B2 [B3 [B4 [B5 [B6 [B7 B8]]]]]]]. repeat split; assumption.
    + destruct Hi as [Hm [He Hk0]].
      destruct (play_metadata_out s c sid md k clock HL Hcs Hss Hp Hsid Hk0 Hclk Hm He)
        as [b [ser' [c1 [pre [Esend [Hin [Hpre [HL2 [Hcs1 [Hss1 [Hp1 [Hst1 Hsends]]]]]]]]]]]].
      destruct (IH (upd_ser s ser') c1 sid clock HL2 Hcs1 Hss1 Hp1 Hsid Hclk Hr)
        as [s2 [c2 [out [E3 [HL3 [Hcs2 [Hss2 [Hp2 [Hst2 [Hsends2 [Hcore Hde2]]]]]]]]]]].
      exists s2, c2, (cpacket_list pre ++ out). cbn [play_run3 map pitem_cevent]. rewrite Esend, Hin, E3.
      split. { rewrite cevents_pre by exact Hpre. rewrite cpacket_list_app. cbn [cevents flat_map List.app cpacket_list]. rewrite app_nil_r. reflexivity. }
      split; [exact HL3|]. split; [exact Hcs2|]. split; [exact Hss2|]. split; [exact Hp2|]. split; [rewrite Hst2; exact Hst1|].
      split; [exact (sends_app _ _ _ Hsends _ _ Hsends2)|]. split; [|rewrite Hde2; reflexivity].
      destruct Hcore as [B1 [B2 [B3 [B4 [B5 [B6 [B7 B8]]]]]]]. repeat split; assumption.
Qed.

(* C02_play_session for sequences of metadata, audio and video items *)
Theorem play_session_all_items c s app key items k1 k2 k3 k4 k5 k6 t1 t2 t3 t4 t5 km kd ks1 ks2 :
  Link (cl_ser c) (sv_de s) -> Link (sv_ser s) (cl_de c) -> ser_ok (cl_ser c) -> ser_ok (sv_ser s) ->
  cl_state c = Connected -> cl_next_tr c < 4294967296 -> sv_next_stream s < 4294967296 -> cc_buffer (cl_cfg c) < 4294967296 ->
  sv_connected s = true -> sv_app s = Some app -> utf8_valid key = true -> lenN key <= 65000 ->
  k1 < 4294967296 -> k2 < 4294967296 -> k3 < 4294967296 -> k6 < 4294967296 -> km < 4294967296 -> ks1 < 4294967296 ->
  (forall w, ack_window (sv_ack s) = Some w -> ack_since (sv_ack s) + 3 * (17 * (lenN key + 200) + 16) < w) ->
  (forall w, ack_window (cl_ack c) = Some w -> ack_since (cl_ack c) + 6 * (17 * (lenN key + 200) + 16) < w) ->
  Forall pitem_wf items ->
  exists c1 b1 s1 b2 c2 b3 b4 s2 s3 s4 p1 p2 p3 p4 p5 c3 c4 c5 c6 c7 s5 c8 out s6 c9 b9 s7 r,
    client_request_playback c key k1 = (c1, COk [CPacket b1 false]) /\
    server_handle_input s b1 k2 = (s1, ROk [SPacket b2 false]) /\
    client_handle_input c1 b2 k3 = (c2, COk [CPacket b3 false; CPacket b4 false]) /\
    server_handle_input s1 b3 k4 = (s2, ROk []) /\
    server_handle_input s2 b4 k5 = (s3, ROk [SEvent (EvPlayRequested (sv_next_req s) app key LiveOrRecorded None false (sv_next_stream s))]) /\
    server_accept s3 (sv_next_req s) k6 = (s4, ROk [SPacket p1 false; SPacket p2 false; SPacket p3 false; SPacket p4 false; SPacket p5 false]) /\
    client_handle_input c2 p1 t1 = (c3, COk [CEvent (CUnhandleableStatus (str "NetStream.Play.Reset"))]) /\
    client_handle_input c3 p2 t2 = (c4, COk []) /\
    client_handle_input c4 p3 t3 = (c5, COk [CEvent CPlaybackAccepted]) /\
    client_handle_input c5 p4 t4 = (c6, COk []) /\
    client_handle_input c6 p5 t5 = (c7, COk []) /\
    play_run3 s4 c7 (sv_next_stream s) items km = Some (s5, c8, map pitem_cevent items, out) /\
    sdeliver s5 out kd = Some s6 /\
    client_stop_playback c8 ks1 = (c9, COk [CPacket b9 false]) /\ cl_state c9 = Connected /\
    server_handle_input s6 b9 ks2 = (s7, ROk r) /\ events r = [EvPlayFinished app key].
Proof.
  intros HL1 HL2 Hcs Hss Hst Htr Hid Hbuf Hconn Happ Hkey Hkl K1 K2 K3 K6 KM KS HWs HWc Hitems.
  destruct (play_completes_windows c s app key k1 k2 k3 k4 k5 k6 t1 t2 t3 t4 t5 HL1 HL2 Hcs Hss Hst Htr Hid Hbuf Hconn Happ Hkey Hkl K1 K2 K3 K6 HWs HWc)
    as [c1 [b1 [s1 [b2 [c2 [b3 [b4 [s2 [s3 [s4 [p1 [p2 [p3 [p4 [p5 [c3 [c4 [c5 [c6 [c7
        [E1 [E2 [E3 [E4 [E5 [E6 [E7 [E8 [E9 [E10 [E11 [Hst7 [Hp7 [Hlk4 [Happ4 [Hconn4 [HLa [HLb [Hcs7 Hss4]]]]]]]]]]]]]]]]]]]]]]]]]]]]]]]]]]]]]]].
  destruct (play_run3_keeps items s4 c7 (sv_next_stream s) km HLb Hcs7 Hss4 Hp7 Hid KM Hitems)
    as [s5 [c8 [out [Erun [HL8 [Hcs8 [Hss5 [Hp8 [Hst8 [Hsends [Hcore5 Hde5]]]]]]]]]]].
  destruct (server_absorbs (cl_ser c7) out (cl_ser c8) Hsends s5 kd ltac:(rewrite Hde5; exact HLa) Hss5)
    as [s6 [Edel [Hcore6 [HL6 Hss6]]]].
  destruct Hcore5 as [A1 [A2 [A3 [A4 [A5 [A6 [A7 A8]]]]]]]. destruct Hcore6 as [B1 [B2 [B3 [B4 [B5 [B6 [B7 B8]]]]]]].
  destruct Hp8 as [_ Hstr8].
  destruct (stop_playback_raises_finished c8 s6 (sv_next_stream s) app key ks1 ks2 HL6 Hcs8 Hss6 ltac:(rewrite Hst8; exact Hst7) Hstr8 Hid KS
              ltac:(rewrite B4, A4; exact Hconn4) ltac:(rewrite B1, A1; exact Happ4) ltac:(rewrite B5, A5; exact Hlk4))
    as [c9 [b9 [s7 [r [F1 [F2 [F3 [F4 [F5 _]]]]]]]]].
  exists c1, b1, s1, b2, c2, b3, b4, s2, s3, s4, p1, p2, p3, p4, p5, c3, c4, c5, c6, c7, s5, c8, out, s6, c9, b9, s7, r.
  repeat (split; [assumption|]). exact F5.
Qed.
