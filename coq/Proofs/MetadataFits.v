(* A metadata message always fits a chunk-layer message: its encoded size is at most a few hundred bytes plus the encoder string. *)
From Coq Require Import ZArith Lia ZifyN ZifyBool ZifyNat List String.
From RML Require Import Model.Base Model.Utf8 Model.Amf0 Model.Messages Model.Float Model.SessionCommon Model.Server Model.Client
  Spec.Amf0Wire Proofs.Amf0Proofs Proofs.Amf0Size Proofs.MetadataProofs Proofs.InteropMetadata Proofs.PlayMetadata.
Import ListNotations.
Local Open Scope N_scope.

Lemma psize_app a b : psize (a ++ b) = psize a + psize b.
Proof. induction a as [|[k x] r IH]; [reflexivity|]. cbn [List.app psize]. rewrite IH. lia. Qed.

Lemma psize_opt_num k (o : option N) g : (forall x, vsize (g x) = 9) -> psize (opt_prop k o g) <= 11 + lenN (str k).
Proof. intros Hg. destruct o as [x|]; cbn [opt_prop psize]; [rewrite Hg|]; lia. Qed.

Lemma md_psize_client md : (forall s, md_encoder md = Some s -> lenN s <= 65535) -> psize (metadata_props_client md) <= 66000.
Proof.
  intros He. unfold metadata_props_client. rewrite !psize_app.
  repeat match goal with |- context [psize (opt_prop ?k ?o (fun x => VNumber (?f x)))] =>
    let H := fresh "H" in pose proof (psize_opt_num k o (fun x => VNumber (f x)) (fun _ => eq_refl)) as H;
    let v := eval vm_compute in (lenN (str k)) in change (lenN (str k)) with v in H;
    generalize dependent (psize (opt_prop k o (fun x => VNumber (f x)))); intros end.
  assert (Hs : psize (opt_prop "stereo" (md_stereo md) VBoolean) <= 10) by (destruct (md_stereo md); cbn [opt_prop psize vsize]; [change (lenN (str "stereo")) with 6|]; lia).
  assert (Hen : psize (opt_prop "encoder" (md_encoder md) VString) <= 12 + 65535).
  { destruct (md_encoder md) as [s|] eqn:E; cbn [opt_prop psize vsize]; [change (lenN (str "encoder")) with 7; specialize (He s eq_refl)|]; lia. }
  lia.
Qed.

Lemma md_psize_server md : (forall s, md_encoder md = Some s -> lenN s <= 65535) -> psize (metadata_props_server md) <= 66000.
Proof.
  intros He. unfold metadata_props_server. rewrite !psize_app.
  repeat match goal with |- context [psize (opt_prop ?k ?o (fun x => VNumber (?f x)))] =>
    let H := fresh "H" in pose proof (psize_opt_num k o (fun x => VNumber (f x)) (fun _ => eq_refl)) as H;
    let v := eval vm_compute in (lenN (str k)) in change (lenN (str k)) with v in H;
    generalize dependent (psize (opt_prop k o (fun x => VNumber (f x)))); intros end.
  assert (Hs : psize (opt_prop "stereo" (md_stereo md) VBoolean) <= 10) by (destruct (md_stereo md); cbn [opt_prop psize vsize]; [change (lenN (str "stereo")) with 6|]; lia).
  assert (Hen : psize (opt_prop "encoder" (md_encoder md) VString) <= 12 + 65535).
  { destruct (md_encoder md) as [s|] eqn:E; cbn [opt_prop psize vsize]; [change (lenN (str "encoder")) with 7; specialize (He s eq_refl)|]; lia. }
  lia.
Qed.

From RML Require Import Model.Chunk Model.ChunkSer Model.ChunkDe Proofs.ChunkSerProofs Proofs.ConfigProofs Proofs.InteropProofs Proofs.ServerProofs
  Proofs.SessionFrame Proofs.ProtocolFlow.

Lemma md_values_fit md : md_ok md -> enc_ok md ->
  exists body, to_payload (MAmf0Data (md_values md)) = Ok (18, body) /\ lenN body <= 16777215.
Proof.
  intros Hm He. destruct (md_values_wf md Hm He) as [Hwf Hex].
  destruct (roundtrip (md_values md) Hwf) as [Hrt _]. destruct (Hrt Hex) as [body [Es _]].
  exists body. split; [unfold to_payload; cbn [message_body]; rewrite Es; reflexivity|].
  rewrite (serialize_size_exact _ _ Es). unfold md_values. cbn [vssize]. rewrite vsize_object.
  pose proof (md_psize_client md (fun s E => proj2 (He s E))) as Hp.
  cbn [vsize]. change (lenN (str "@setDataFrame")) with 13. change (lenN (str "onMetaData")) with 10. lia.
Qed.

(* C02_publish_metadata without the error alternative *)
Theorem publish_metadata_always_delivered c s md clock sclock sid app key :
  Link (cl_ser c) (sv_de s) -> ser_ok (cl_ser c) -> ser_ok (sv_ser s) ->
  publishing_stream c = Ok sid -> sid < 4294967296 -> clock < 4294967296 -> md_ok md -> enc_ok md ->
  sv_connected s = true -> publishing_key s sid = Some (app, key) ->
  exists b c' s' rs,
    client_publish_metadata c md clock = (c', COk [CPacket b false]) /\
    server_handle_input s b sclock = (s', ROk rs) /\
    events rs = [EvMetadata app key md] /\
    Link (cl_ser c') (sv_de s') /\ ser_ok (cl_ser c') /\ ser_ok (sv_ser s') /\ publishing_stream c' = Ok sid /\
    sv_connected s' = true /\ publishing_key s' sid = Some (app, key).
Proof.
  intros HL Hcs Hser Hps Hsid Hclk Hm He Hc Hk.
  destruct (publish_metadata_delivered c s md clock sclock sid app key HL Hser Hps Hsid Hclk Hm He Hc Hk)
    as [[e Herr] | [b [c' [s' [rs [E1 [E2 [E3 [E4 [E5 [E6 [E7 E8]]]]]]]]]]]].
  - exfalso. unfold client_publish_metadata in Herr. rewrite Hps in Herr. fold (md_values md) in Herr.
    unfold cone_packet, csending in Herr.
    destruct (md_values_fit md Hm He) as [body [Etp Hl]].
    destruct (send_ok (cl_ser c) (MAmf0Data (md_values md)) clock sid false false 18 body Hcs Etp Hl) as [b [ser' Es]].
    rewrite Es in Herr. discriminate Herr.
  - exists b, c', s', rs. split; [exact E1|]. split; [exact E2|]. split; [exact E3|]. split; [exact E4|].
    split. { pose proof (client_step_good c (CopMetadata md clock) Hcs) as [_ Hg]. cbn [client_step] in Hg. rewrite E1 in Hg. exact Hg. }
    split; [exact E5|]. split; [exact E6|]. split; [exact E7|exact E8].
Qed.

(* ---------------------------------------------------------------- the server's metadata message is always sent *)
Lemma md_props_server_expressible m : enc_ok m -> expressible (VObject (metadata_props_server m)) = true.
Proof.
  intros He. change (expressible (VObject (metadata_props_server m))) with (expressible_props (metadata_props_server m)).
  unfold metadata_props_server. rewrite !expressible_props_app.
  assert (Hx : forall {A} k (o : option A) g, (1 <=? lenN (str k)) && (lenN (str k) <=? 65535) = true ->
            (forall x, o = Some x -> expressible (g x) = true) -> expressible_props (opt_prop k o g) = true).
  { intros A k o g Hk Hg. destruct o as [x|]; cbn [opt_prop expressible_props]; [|reflexivity]. rewrite Hk, (Hg x eq_refl). reflexivity. }
  rewrite !Hx; try reflexivity; try (intros x _; reflexivity).
  intros s E. cbn [expressible]. destruct (He s E) as [_ Hl]. lia.
Qed.

Definition smd_values (md : metadata) : list value := [VString (str "onMetaData"); VObject (metadata_props_server md)].

Lemma smd_values_fit md : md_ok md -> enc_ok md ->
  exists body, to_payload (MAmf0Data (smd_values md)) = Ok (18, body) /\ lenN body <= 16777215.
Proof.
  intros Hm He.
  assert (Hwf : wf_values (smd_values md)) by (cbn [smd_values wf_values]; split; [reflexivity|split; [exact (md_props_server_wf md Hm He)|exact I]]).
  assert (Hex : expressible_all (smd_values md) = true) by (cbn [smd_values expressible_all]; rewrite (md_props_server_expressible md He); reflexivity).
  destruct (roundtrip (smd_values md) Hwf) as [Hrt _]. destruct (Hrt Hex) as [body [Es _]].
  exists body. split; [unfold to_payload; cbn [message_body]; rewrite Es; reflexivity|].
  rewrite (serialize_size_exact _ _ Es). unfold smd_values. cbn [vssize]. rewrite vsize_object.
  pose proof (md_psize_server md (fun s E => proj2 (He s E))) as Hp.
  cbn [vsize]. change (lenN (str "onMetaData")) with 10. lia.
Qed.

Lemma server_send_metadata_ok s sid md clock : ser_ok (sv_ser s) -> md_ok md -> enc_ok md ->
  exists b ser', server_send_metadata s sid md clock = (upd_ser s ser', ROk [SPacket b false]) /\
    send_message (sv_ser s) (MAmf0Data (smd_values md)) clock sid false false = Ok (b, ser') /\ ser_ok ser'.
Proof.
  intros Hss Hm He. destruct (smd_values_fit md Hm He) as [body [Etp Hl]].
  destruct (send_ok (sv_ser s) (MAmf0Data (smd_values md)) clock sid false false 18 body Hss Etp Hl) as [b [ser' Es]].
  exists b, ser'. unfold server_send_metadata, one_packet, sending. fold (smd_values md). rewrite Es. split; [reflexivity|]. split; [reflexivity|].
  pose proof (send_message_total (sv_ser s) (MAmf0Data (smd_values md)) clock sid false false Hss) as T. rewrite Es in T. exact T.
Qed.
