(* C02: the workflow theorems deliver one packet per input call; by C15 for sessions the same events, the same verdict and the same
   protocol state result when that packet reaches the peer cut into pieces in any way. *)
From Coq Require Import ZArith Lia List.
From RML Require Import Model.Base Model.Chunk Model.ChunkSer Model.ChunkDe Model.SessionCommon Model.Server Model.Client
  Proofs.ChunkDeProofs Proofs.ServerProofs Proofs.InteropProofs Proofs.SessionPartition Proofs.ClientPartition Proofs.InteropPartition.
Import ListNotations.
Local Open Scope N_scope.

Theorem server_packet_any_fragmentation s ser b pieces clock s' rs :
  Link ser (sv_de s) -> ser_ok (sv_ser s) -> List.concat pieces = b ->
  server_handle_input s b clock = (s', ROk rs) ->
  exists s2, feed_server s pieces clock [] = (s2, events rs, VOk) /\ same_core s' s2.
Proof.
  intros HL Hss Hcat Hin.
  pose proof (server_partition_independent s [b] pieces clock Hss (link_quiescent _ _ HL) ltac:(cbn [List.concat]; rewrite app_nil_r; symmetry; exact Hcat)) as H.
  cbv zeta in H. cbn [feed_server] in H. rewrite Hin in H. cbn [feed_server List.app fst snd] in H.
  destruct (feed_server s pieces clock []) as [[s2 ev2] v2]. cbn [fst snd] in H.
  destruct H as [Hv [common [d1 [d2 [E1 [E2 Hok]]]]]]. subst v2.
  destruct (Hok eq_refl) as [-> [-> Hcore]]. rewrite !app_nil_r in *. subst common.
  exists s2. rewrite <- E2. split; [reflexivity|exact Hcore].
Qed.

Theorem client_packet_any_fragmentation c ser b pieces clock c' rs :
  Link ser (cl_de c) -> ser_ok (cl_ser c) -> List.concat pieces = b ->
  client_handle_input c b clock = (c', COk rs) ->
  exists c2, feed_client c pieces clock [] = (c2, cevents rs, CVOk) /\ csame_core c' c2.
Proof.
  intros HL Hss Hcat Hin.
  pose proof (client_partition_independent c [b] pieces clock Hss (link_quiescent _ _ HL) ltac:(cbn [List.concat]; rewrite app_nil_r; symmetry; exact Hcat)) as H.
  cbv zeta in H. cbn [feed_client] in H. rewrite Hin in H. cbn [feed_client List.app fst snd] in H.
  destruct (feed_client c pieces clock []) as [[c2 ev2] v2]. cbn [fst snd] in H.
  destruct H as [Hv [common [d1 [d2 [E1 [E2 Hok]]]]]]. subst v2.
  destruct (Hok eq_refl) as [-> [-> Hcore]]. rewrite !app_nil_r in *. subst common.
  exists c2. rewrite <- E2. split; [reflexivity|exact Hcore].
Qed.
