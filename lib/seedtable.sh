#!/bin/bash
# seedtable.sh : for every seeded change, apply it to /repo, run the check of its property (quick tier), record the verdict line and the
# failing oracle / problem from the replay file, undo it.  Writes /verif/seeded/TABLE.md.  Afterwards re-runs every check on the clean tree.
cd /verif
git -C /repo diff --quiet || { echo "/repo is dirty"; exit 2; }
OUT=/verif/seeded/TABLE.md
# with arguments: only the named seeds, appended to the existing table (rows of those seeds are replaced)
if [ $# -gt 0 ]; then
  LIST=""; for n in "$@"; do LIST="$LIST seeded/$n/"; grep -v "^| $n |" $OUT > $OUT.tmp; mv $OUT.tmp $OUT; done
else
  LIST=$(ls -d seeded/C*/)
  echo "| seed | property check | verdict | decided by |" > $OUT
  echo "|---|---|---|---|" >> $OUT
fi
for d in $LIST; do
  NAME=$(basename $d)
  P=${NAME:0:3}
  git -C /repo apply /verif/seeded/$NAME/patch.diff || { echo "| $NAME | $P | PATCH DOES NOT APPLY | |" >> $OUT; continue; }
  LINE=$(./check $P --tier quick | grep -E "^(VIOLATION|OK|KNOWN)" | tail -1)
  git -C /repo checkout -- .
  R=$(echo "$LINE" | sed -n 's/.*replay=\([^ ]*\).*/\1/p')
  WHY=""
  if [ -n "$R" ] && [ -f "$R" ]; then
    WHY=$(python3 -c "
import json,sys
d=json.load(open('$R'))
if d.get('oracle'): print('oracle '+d['oracle']+' on a generated case (replay = the case)')
else: print('; '.join((p.get('kind','')+': '+p.get('what','')[:140]) for p in d.get('problems',[])[:2]))
")
  fi
  echo "| $NAME | ./check $P | ${LINE%% replay=*} $(echo $LINE | grep -o no-failing-input-found) | $WHY |" >> $OUT
done
python3 /verif/lib/gen_consts.py > /dev/null
for P in C01 C02 C03 C04 C05 C06 C07 C08 C09 C10 C11 C12 C13 C14 C15 C16 C17 C18 C19 C20; do
  ./check $P --tier quick | tail -1 | cut -c1-160
done
cat $OUT
