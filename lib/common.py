"""Shared helpers for the /verif checks (paths, subprocesses, hashing, locking)."""
import fcntl, hashlib, json, os, subprocess, sys, time

VERIF = os.path.dirname(os.path.dirname(os.path.abspath(__file__)))
REPO = os.environ.get("RML_REPO", "/repo")
BUILD = os.path.join(VERIF, "build")
COQ = os.path.join(VERIF, "coq")
OCAML_SRC = os.path.join(VERIF, "ocaml")
OCAML_BUILD = os.path.join(BUILD, "ocaml")
HARNESS = os.path.join(VERIF, "harness")
CARGO_TARGET = os.path.join(BUILD, "cargo-target")
CACHE = os.path.join(BUILD, "cache")
WORK = os.path.join(BUILD, "work")
REPLAY = os.path.join(BUILD, "replay")
EVIDENCE = os.path.join(VERIF, "evidence")
CORPUS = os.path.join(VERIF, "corpus")

for d in (BUILD, OCAML_BUILD, CACHE, WORK, REPLAY, EVIDENCE):
    os.makedirs(d, exist_ok=True)


def log(*a):
    print(*a, file=sys.stderr, flush=True)


def run(cmd, cwd=None, timeout=600, env=None, stdin_path=None, stdout_path=None, shell=False):
    """Run a command under a timeout. Returns (rc, stdout+stderr text). rc=124 on timeout."""
    e = dict(os.environ)
    e["CARGO_NET_OFFLINE"] = "true"
    if env:
        e.update(env)
    fin = open(stdin_path, "rb") if stdin_path else subprocess.DEVNULL
    fout = open(stdout_path, "wb") if stdout_path else subprocess.PIPE
    try:
        p = subprocess.run(cmd, cwd=cwd, env=e, stdin=fin, stdout=fout,
                           stderr=subprocess.STDOUT if not stdout_path else subprocess.PIPE,
                           timeout=timeout, shell=shell)
        out = (p.stdout or b"") if not stdout_path else (p.stderr or b"")
        return p.returncode, out.decode("utf-8", "replace")
    except subprocess.TimeoutExpired as ex:
        out = ex.stdout or b""
        return 124, out.decode("utf-8", "replace") + "\nTIMEOUT after %ss" % timeout
    finally:
        if stdin_path:
            fin.close()
        if stdout_path:
            fout.close()


class Lock:
    """Coarse inter-process lock so that concurrent checks do not trample on build/."""

    def __init__(self, name="build"):
        self.path = os.path.join(BUILD, "." + name + ".lock")

    def __enter__(self):
        self.f = open(self.path, "w")
        fcntl.flock(self.f, fcntl.LOCK_EX)
        return self

    def __exit__(self, *a):
        fcntl.flock(self.f, fcntl.LOCK_UN)
        self.f.close()


def hash_files(paths):
    h = hashlib.sha256()
    for p in sorted(paths):
        h.update(p.encode())
        try:
            with open(p, "rb") as f:
                h.update(f.read())
        except OSError:
            h.update(b"<missing>")
    return h.hexdigest()


def tree_files(root, exts=None, skip=("target", "_build", ".git")):
    out = []
    for dp, dn, fn in os.walk(root):
        dn[:] = [d for d in dn if d not in skip]
        for f in fn:
            if exts is None or os.path.splitext(f)[1] in exts:
                out.append(os.path.join(dp, f))
    return out


def repo_source_files():
    fs = []
    for sub in ("amf0", "rtmp"):
        fs += tree_files(os.path.join(REPO, sub), exts={".rs", ".toml"})
    fs.append(os.path.join(REPO, "Cargo.lock"))
    return fs


class SplitMix:
    """splitmix64: every random choice of a run derives from one state (replayable)."""

    def __init__(self, seed):
        self.s = seed & 0xFFFFFFFFFFFFFFFF

    def next(self):
        self.s = (self.s + 0x9E3779B97F4A7C15) & 0xFFFFFFFFFFFFFFFF
        z = self.s
        z = ((z ^ (z >> 30)) * 0xBF58476D1CE4E5B9) & 0xFFFFFFFFFFFFFFFF
        z = ((z ^ (z >> 27)) * 0x94D049BB133111EB) & 0xFFFFFFFFFFFFFFFF
        return z ^ (z >> 31)

    def below(self, n):
        return self.next() % n if n > 0 else 0

    def range(self, lo, hi):
        return lo + self.below(hi - lo + 1)

    def choice(self, xs):
        return xs[self.below(len(xs))]

    def chance(self, num, den):
        return self.below(den) < num

    def bytes(self, n):
        out = bytearray()
        while len(out) < n:
            out += self.next().to_bytes(8, "little")
        return bytes(out[:n])

    def fork(self, tag):
        h = hashlib.sha256(("%d/%s" % (self.s, tag)).encode()).digest()
        return SplitMix(int.from_bytes(h[:8], "little"))


def hexs(b):
    return b.hex() if len(b) else "-"
