#!/bin/bash
# seedtest.sh <seedname> <property>... : apply a seeded change to /repo, run the named checks, undo it,
# then re-run the checks on the clean tree so that the evidence files describe the unchanged tree.
NAME=$1; shift
cd /verif
git -C /repo diff --quiet || { echo "/repo is dirty"; exit 2; }
git -C /repo apply /verif/seeded/$NAME/patch.diff || exit 3
for P in "$@"; do
  echo "--- $NAME -> ./check $P"
  ./check $P --tier ${TIER:-quick} | tail -5 | cut -c1-300
done
git -C /repo checkout -- .
git -C /repo status --short | head
python3 /verif/lib/gen_consts.py > /dev/null
for P in "$@"; do
  echo "--- clean -> ./check $P"
  ./check $P --tier quick | tail -2 | cut -c1-200
done
