"""Engine behind ./check : proof build + assumption audit + correspondence + oracles + evidence."""
import glob, importlib, json, os, re, shutil, sys, time
from common import *
import gen_consts

FORBIDDEN = re.compile(
    r"\b(Admitted|admit|Axiom|Axioms|Parameter|Parameters|Conjecture|Conjectures|Admit Obligations|"
    r"bypass_check|Unset Guard Checking|Unset Positivity Checking|Unset Universe Checking|"
    r"type-in-type|impredicative-set)\b|^\s*(Variable|Variables|Hypothesis|Hypotheses)\b")

TRUSTED_BASE = [
    "Coq 8.16.1 kernel (coqc full .vo build; no native_compute; vm_compute only on closed finite facts)",
    "axioms: none (every Print Assumptions must read 'Closed under the global context')",
    "hand-written Gallina model coq/Model/*.v tied to /repo by the correspondence check (differential testing on generated + corpus cases)",
    "lib/gen_consts.py: literal constants and match tables copied from /repo into coq/Gen/Consts.v on every run",
    "extraction: ExtrOcamlBasic only (bool/option/list/prod/unit/sumbool to OCaml natives; N/positive stay Coq datatypes), OCaml 4.13.1, ocaml/judge.ml driver",
    "Rust harness /verif/harness (case execution + canonical printing), Python orchestration lib/*.py",
]


# ---------------------------------------------------------------------------------------------
# Coq
# ---------------------------------------------------------------------------------------------
def coq_prepare():
    """Regenerate Consts.v and the coq Makefile. Returns gen_consts result."""
    r = gen_consts.generate()
    mk = os.path.join(COQ, "Makefile.coq")
    proj = os.path.join(COQ, "_CoqProject")
    if not os.path.exists(mk) or os.path.getmtime(mk) < os.path.getmtime(proj):
        rc, out = run(["coq_makefile", "-f", "_CoqProject", "-o", "Makefile.coq"], cwd=COQ, timeout=120)
        if rc != 0:
            raise RuntimeError("coq_makefile failed: " + out)
    return r


def coq_make(targets, timeout=1500):
    rc, out = run(["make", "-f", "Makefile.coq", "-j16"] + targets, cwd=COQ, timeout=timeout)
    return rc, out


def coq_audit_sources():
    """grep the whole development for forbidden vernacular. Returns list of 'file:line: text'."""
    hits = []
    for p in tree_files(COQ, exts={".v"}):
        in_comment = 0
        with open(p, encoding="utf-8") as f:
            for i, line in enumerate(f, 1):
                # strip comments (nesting-aware, line-granular approximation)
                out = []
                j = 0
                while j < len(line):
                    if line.startswith("(*", j):
                        in_comment += 1; j += 2; continue
                    if line.startswith("*)", j) and in_comment:
                        in_comment -= 1; j += 2; continue
                    if not in_comment:
                        out.append(line[j])
                    j += 1
                code = "".join(out)
                if FORBIDDEN.search(code):
                    # Variable/Hypothesis are allowed inside a Section: checked coarsely below
                    hits.append((p, i, code.strip()))
    real = []
    for p, i, code in hits:
        if re.match(r"^\s*(Variable|Variables|Hypothesis|Hypotheses)\b", code):
            if inside_section(p, i):
                continue
        real.append("%s:%d: %s" % (os.path.relpath(p, VERIF), i, code))
    return real


def inside_section(path, lineno):
    depth = 0
    with open(path, encoding="utf-8") as f:
        for i, line in enumerate(f, 1):
            if i >= lineno:
                break
            if re.match(r"^\s*Section\s+\w+", line):
                depth += 1
            elif re.match(r"^\s*End\s+\w+", line) and depth > 0:
                depth -= 1
    return depth > 0


def coq_check_props(pid):
    """Build Props/<pid>.vo (dependencies only), re-run coqc on it to capture Print Assumptions.
    Returns dict(ok, theorems, discharged, failures[list of str], output)."""
    res = {"ok": False, "theorems": [], "discharged": 0, "failures": [], "output": ""}
    src = os.path.join(COQ, "Props", pid + ".v")
    text = open(src, encoding="utf-8").read()
    thms = re.findall(r"^\s*Theorem\s+(\w+)", text, re.M)
    res["theorems"] = thms
    rc, out = coq_make(["Props/%s.vo" % pid])
    res["output"] = out[-6000:]
    if rc != 0:
        m = re.search(r'File "([^"]+)", line (\d+)', out)
        where = "%s:%s" % (m.group(1), m.group(2)) if m else "?"
        res["failures"].append("coq build of Props/%s.vo failed at %s" % (pid, where))
        res["failed_file"] = where
        return res
    # recompile the leaf to capture its output (nothing depends on Props files)
    rc, out = run(["coqc", "-q", "-Q", ".", "RML", "Props/%s.v" % pid], cwd=COQ, timeout=600)
    res["output"] = out[-6000:]
    if rc != 0:
        res["failures"].append("coqc Props/%s.v failed" % pid)
        return res
    # Print Assumptions output: one block per command
    n_print = len(re.findall(r"^\s*Print Assumptions\s+(\w+)", text, re.M))
    printed = re.findall(r"^\s*Print Assumptions\s+(\w+)", text, re.M)
    closed = out.count("Closed under the global context")
    missing = [t for t in thms if t not in printed]
    if missing:
        res["failures"].append("theorems without Print Assumptions: " + ", ".join(missing))
    if "Axioms:" in out or closed != n_print:
        res["failures"].append("Print Assumptions not closed: %d of %d closed; output: %s"
                               % (closed, n_print, out[-800:]))
    # every theorem in a Props file must be closed by `exact`
    bodies = re.findall(r"Theorem\s+(\w+).*?Proof\.(.*?)Qed\.", text, re.S)
    for name, body in bodies:
        if not re.match(r"^\s*exact\s+[\w.@]+\s*\.\s*$", body.strip() + " "):
            if not re.match(r"^\s*exact\s+\(?[\w.@ ]+\)?\s*\.\s*$", body.strip() + " "):
                res["failures"].append("theorem %s is not closed by a single `exact`" % name)
    res["discharged"] = len(thms) if not res["failures"] else min(closed, len(thms))
    res["ok"] = not res["failures"]
    return res


# ---------------------------------------------------------------------------------------------
# extraction + judge, harness
# ---------------------------------------------------------------------------------------------
def build_judge():
    """make the Model/Spec .vo files, extract, dune build. Returns (ok, message)."""
    with open(os.path.join(COQ, "Extract", "Extract.v")) as f:
        ex = f.read()
    mods = sorted(set(re.findall(r"\b(Model|Spec)\.(\w+)", ex)))
    targets = ["%s/%s.vo" % m for m in mods]
    rc, out = coq_make(targets)
    if rc != 0:
        return False, "model does not compile: " + out[-2000:]
    deps = [os.path.join(COQ, "Extract", "Extract.v")] + [os.path.join(COQ, t[:-1]) for t in targets] + \
           [os.path.join(COQ, "Gen", "Consts.v"), os.path.join(COQ, "Model", "Base.v")] + \
           glob.glob(os.path.join(OCAML_SRC, "*"))
    stamp = os.path.join(OCAML_BUILD, ".stamp")
    h = hash_files(deps)
    exe = os.path.join(OCAML_BUILD, "_build", "default", "judge.exe")
    if os.path.exists(stamp) and open(stamp).read() == h and os.path.exists(exe):
        return True, "judge up to date"
    for f in glob.glob(os.path.join(OCAML_BUILD, "*.ml")) + glob.glob(os.path.join(OCAML_BUILD, "*.mli")):
        os.remove(f)
    rc, out = run(["coqc", "-q", "-Q", COQ, "RML", os.path.join(COQ, "Extract", "Extract.v")],
                  cwd=OCAML_BUILD, timeout=900)
    if rc != 0:
        return False, "extraction failed: " + out[-2000:]
    for f in glob.glob(os.path.join(OCAML_SRC, "*")):
        shutil.copy(f, OCAML_BUILD)
    rc, out = run(["dune", "build", "./judge.exe"], cwd=OCAML_BUILD, timeout=900)
    if rc != 0:
        return False, "judge build failed: " + out[-3000:]
    with open(stamp, "w") as f:
        f.write(h)
    return True, "judge rebuilt"


JUDGE = os.path.join(OCAML_BUILD, "_build", "default", "judge.exe")


def harness_exe(profile="release"):
    return os.path.join(CARGO_TARGET, profile, "rml_verif_harness")


def build_harness(profile="release"):
    lock_src = os.path.join(REPO, "Cargo.lock")
    lock_dst = os.path.join(HARNESS, "Cargo.lock")
    if not os.path.exists(lock_dst):
        shutil.copy(lock_src, lock_dst)
    env = {"RUSTFLAGS": "--cfg rml_verif", "CARGO_NET_OFFLINE": "true", "CARGO_TARGET_DIR": CARGO_TARGET}
    args = ["cargo", "build", "--offline", "--profile", profile]
    rc, out = run(args, cwd=HARNESS, timeout=1500, env=env)
    if rc != 0:
        return False, out[-4000:]
    return True, "ok"


# ---------------------------------------------------------------------------------------------
# correspondence
# ---------------------------------------------------------------------------------------------
def component_module(comp):
    return importlib.import_module("gens." + comp)


def inputs_hash(comp, seed, tier, extra=""):
    files = repo_source_files() + tree_files(HARNESS, exts={".rs", ".toml"}) + \
        tree_files(os.path.join(COQ, "Model"), exts={".v"}) + tree_files(os.path.join(COQ, "Spec"), exts={".v"}) + \
        tree_files(os.path.join(COQ, "Gen"), exts={".v"}) + tree_files(os.path.join(COQ, "Extract"), exts={".v"}) + \
        tree_files(OCAML_SRC) + tree_files(os.path.join(VERIF, "lib"), exts={".py"}) + \
        tree_files(os.path.join(CORPUS, comp))
    return hash_files(files)[:24] + "-%s-%s-%s%s" % (comp, tier, seed, extra)


def _run_shard(comp, lines, tag, profile, timeout):
    cases_path = os.path.join(WORK, "%s-%s.cases" % (comp, tag))
    obs_path = os.path.join(WORK, "%s-%s.obs" % (comp, tag))
    ver_path = os.path.join(WORK, "%s-%s.verdict" % (comp, tag))
    with open(cases_path, "w") as f:
        for c in lines:
            f.write(c + "\n")
    res = {"cases": len(lines), "diffs": [], "oracle": [], "errors": []}
    rc, err = run([harness_exe(profile)], stdin_path=cases_path, stdout_path=obs_path, timeout=timeout)
    if rc != 0:
        res["errors"].append("harness exited %d (%s): %s" % (rc, "timeout" if rc == 124 else "abort", err[-300:]))
    rc2, err2 = run("ulimit -s unlimited 2>/dev/null; exec %s" % JUDGE, shell=True,
                    stdin_path=obs_path, stdout_path=ver_path, timeout=timeout)
    if rc2 != 0:
        res["errors"].append("judge exited %d: %s" % (rc2, err2[-300:]))
    seen = None
    with open(ver_path, encoding="utf-8", errors="replace") as f:
        for line in f:
            parts = line.rstrip("\n").split("\t")
            if parts[0] == "DIFF" and len(parts) >= 4:
                res["diffs"].append({"case": parts[1], "impl": parts[2][5:], "model": parts[3][6:]})
            elif parts[0] == "ORACLE" and len(parts) >= 4:
                res["oracle"].append({"oracle": parts[1], "case": parts[2], "impl": parts[3][5:]})
            elif parts[0] == "SUMMARY":
                seen = int(parts[1].split("=")[1])
    with open(obs_path, "rb") as f:
        observed = sum(1 for _ in f)
    res["judged"] = seen if seen is not None else 0
    if observed < len(lines):
        # the harness died mid-way (abort / stack overflow / timeout): the first unobserved case is the culprit
        res["errors"].append("only %d of %d cases were observed by the harness" % (observed, len(lines)))
        res["unfinished_case"] = lines[observed]
    elif seen != len(lines):
        res["errors"].append("judge finished %s of %d cases" % (seen, len(lines)))
    return res


def run_cases(comp, case_lines, tag, profile="release", timeout=900, shards=16):
    """Run case lines through harness and judge (sharded). Returns dict(cases, diffs[], oracle[], errors[])."""
    from concurrent.futures import ThreadPoolExecutor
    n = max(1, min(shards, len(case_lines) // 20 or 1))
    parts = [case_lines[i::n] for i in range(n)]
    with ThreadPoolExecutor(max_workers=n) as ex:
        rs = list(ex.map(lambda ip: _run_shard(comp, ip[1], "%s-s%d" % (tag, ip[0]), profile, timeout), enumerate(parts)))
    res = {"cases": len(case_lines), "diffs": [], "oracle": [], "errors": [], "judged": 0}
    for r in rs:
        res["diffs"] += r["diffs"]
        res["oracle"] += r["oracle"]
        res["errors"] += r["errors"]
        res["judged"] += r["judged"]
        if "unfinished_case" in r and "unfinished_case" not in res:
            res["unfinished_case"] = r["unfinished_case"]
    return res


def correspondence(comp, seed, tier, force=False):
    """Cached correspondence run of one component. Returns result dict."""
    mod = component_module(comp)
    key = inputs_hash(comp, seed, tier)
    cpath = os.path.join(CACHE, key + ".json")
    if os.path.exists(cpath) and not force:
        with open(cpath) as f:
            r = json.load(f)
        r["cached"] = True
        return r
    t0 = time.time()
    rng = SplitMix(seed).fork(comp)
    corpus = []
    for p in sorted(glob.glob(os.path.join(CORPUS, comp, "*.case"))):
        with open(p) as f:
            corpus += [l.rstrip("\n") for l in f if l.strip() and not l.startswith("#")]
    gen = list(mod.generate(rng, tier))
    lines = corpus + gen
    r = run_cases(comp, lines, "%s-%s" % (tier, seed))
    r["corpus_cases"] = len(corpus)
    r["generated_cases"] = len(gen)
    distinct = set(lines)
    r["distinct"] = len(distinct)
    r["distinct_nontrivial"] = sum(1 for c in distinct if mod.nontrivial(c))
    r["distribution"] = mod.distribution(lines) if hasattr(mod, "distribution") else {}
    r["samples"] = [l if len(l) < 400 else l[:400] + "..." for l in (gen[:2] + gen[len(gen)//2:len(gen)//2+1] + corpus[:1])]
    r["wall_s"] = round(time.time() - t0, 2)
    r["cached"] = False
    r["component"] = comp
    # keep files small
    r["diffs"] = r["diffs"][:50]
    # per oracle name (one flooding oracle must not hide another property's failures), shortest cases first
    by = {}
    for o in sorted(r["oracle"], key=lambda o: len(o["case"])):
        by.setdefault(o["oracle"], [])
        if len(by[o["oracle"]]) < 20:
            by[o["oracle"]].append(o)
    r["oracle"] = [o for name in sorted(by) for o in by[name]]
    with open(cpath, "w") as f:
        json.dump(r, f)
    return r
