#!/bin/bash
# confirm_seed.sh <name> [<outdir>] : confirm a seeded change in a scratch worktree of /repo, then store it
# under /verif/seeded/<name>/ .  Confirms: patch applies to /repo HEAD; crate compiles; existing suite passes
# with the patch; demo fails with the patch; demo passes without it.
set -u
NAME=$1
OUT=${2:-/tmp/seed/$NAME-out}
WT=/tmp/seedconfirm-$NAME
export CARGO_NET_OFFLINE=true
rm -rf $WT; git -C /repo worktree prune
git -C /repo worktree add -q --detach $WT HEAD || exit 2
cd $WT
export CARGO_TARGET_DIR=$WT/target
LOC=$(python3 -c "import json;print(json.load(open('$OUT/meta.json'))['demo_location'])")
res() { echo "$1" >> $OUT/confirm.log; }
: > $OUT/confirm.log
mkdir -p $(dirname $WT/$LOC); cp $OUT/demo.rs $WT/$LOC
cargo test --offline -p rml_rtmp -p rml_amf0 --test seed_demo > $OUT/demo_without.log 2>&1; A=$?
res "demo without patch: exit $A (expect 0)"
git apply $OUT/patch.diff || { res "PATCH DOES NOT APPLY"; cat $OUT/confirm.log; exit 3; }
cargo test --offline -p rml_rtmp -p rml_amf0 --test seed_demo > $OUT/demo_with.log 2>&1; B=$?
res "demo with patch: exit $B (expect non-zero)"
rm $WT/$LOC
cargo test --offline --workspace > $OUT/suite_with.log 2>&1; C=$?
res "suite with patch: exit $C (expect 0); $(grep -c '^test .* ok$' $OUT/suite_with.log) tests ok"
cd /; git -C /repo worktree remove --force $WT
cat $OUT/confirm.log
if [ $A -eq 0 ] && [ $B -ne 0 ] && [ $C -eq 0 ]; then
  mkdir -p /verif/seeded/$NAME
  cp $OUT/patch.diff $OUT/demo.rs $OUT/meta.json $OUT/confirm.log /verif/seeded/$NAME/
  echo CONFIRMED
else
  echo NOT-CONFIRMED; exit 1
fi
