"""Case generator for component `server` (ServerSession): operation scripts = peer bytes (built by the
Python peer emulator) interleaved with application calls, with a pinned clock reading per call."""
import struct
from common import hexs
from gens import amf0 as A
from gens.rtmpenc import ChunkWriter, S, Num, Obj, NULL, amf, command
from gens.chunk import rand_part

CLOCKS = [0, 1, 1000, 0xFFFFFE, 0xFFFFFF, 0x1000000, 0x7FFFFFFF, 0x80000000, 0xFFFFFFFF, 0x100000000, 0x100000005, 0x1FFFFFFFF]
KEYS = [b"key", b"stream1", b"k" * 40, "clé".encode(), b""]
APPS = [b"live", b"app/", b"a", b"live/", b"x" * 30, "αβ".encode(), b""]


def md_text(rng):
    def o(choices):
        return "-" if rng.chance(1, 3) else str(rng.choice(choices))
    fr = "-" if rng.chance(1, 3) else "%08x" % struct.unpack(">I", struct.pack(">f", rng.choice([30.0, 29.97, 60.0, 0.0, 23.976, 1e10])))[0]
    st = rng.choice(["-", "T", "F"])
    enc = "-" if rng.chance(1, 2) else hexs(rng.choice([b"obs", b"ffmpeg 4.2", "ü".encode()]))
    return "w=%s,h=%s,vc=%s,fr=%s,vb=%s,ac=%s,ab=%s,asr=%s,ach=%s,st=%s,enc=%s" % (
        o([1920, 0, 4294967295]), o([1080, 1]), o([7, 2]), fr, o([2500, 0]), o([10, 2]), o([128, 160]), o([44100, 48000]), o([2, 1]), st, enc)


def odd_value(r):
    return r.choice([S(""), S("a"), S("avc"), S("avc1"), S("avc1.64001f"), S("\u20ac\u20ac"), S("\u00e9\u00e9\u00e9"), S("mp4a"), Num(float("nan")), Num(-1),
                     Num(1e300), ("B", True), NULL, Obj([]), Obj([("x", Num(1))]), ("A", [Num(7)]), ("A", [])])


class Script:
    def __init__(self, rng, tier, clean=False):
        self.rng = rng
        self.tier = tier
        self.clean = clean
        self.w = ChunkWriter(rng)
        self.ops = []
        self.clock = rng.choice(CLOCKS) if rng.chance(1, 3) else rng.below(5000)
        self.req = 0          # guess of the next request id
        self.streams = []     # guesses of created stream ids
        self.next_stream = 1
        self.pending = b""

    def tick(self):
        r = self.rng
        if r.chance(1, 12):
            self.clock = r.choice(CLOCKS)
        else:
            self.clock += r.range(0, 40)
        return self.clock

    def flush(self, force_part=None):
        if self.pending:
            part = force_part or rand_part(self.rng, len(self.pending))
            self.ops.append("in %d %s %s" % (self.tick(), part, hexs(self.pending)))
            self.pending = b""

    def peer(self, tid, sid, payload, ts=None, sep=True):
        ts = self.rng.below(1 << 32) if ts is None else ts
        self.pending += self.w.message(tid, sid, ts, payload)
        if sep or self.rng.chance(1, 2):
            self.flush()

    def app(self, text):
        self.flush()
        self.ops.append(text)

    # --- peer messages -----------------------------------------------------------------------
    def connect(self, malformed=False):
        r = self.rng
        app = r.choice(APPS[:6])
        if self.clean:
            malformed = False
        props = [("app", S(app)), ("flashVer", S("FMLE/3.0")), ("tcUrl", S(b"rtmp://h/" + app))]
        if r.chance(1, 2):
            props.append(("objectEncoding", Num(r.choice([0, 3, 1.5]))))
        if malformed:
            k = r.below(4)
            if k == 0:
                props = [p for p in props if p[0] != "app"]
            elif k == 1:
                props[0] = ("app", Num(5))
            elif k == 2:
                self.peer(20, 0, command("connect", 1, NULL, []))
                return
            else:
                self.peer(20, 0, amf([S("connect"), Num(1)]))       # fewer than three values
                return
        self.peer(20, 0, command("connect", r.choice([1, 1, 2, 0, 1.5]), Obj(props), []))
        self.req += 1

    def second_connect(self):
        """a further connect request on a session that already has an accepted connection, refused (or, in noisy scripts,
        sometimes accepted) by the application: refusing it must not disturb the accepted connection"""
        r = self.rng
        app = r.choice(APPS[:6])
        self.peer(20, 0, command("connect", r.choice([1, 2, 9]), Obj([("app", S(app))]), []))
        self.req += 1
        if self.clean or r.chance(4, 5):
            self.app("reject %d %d %s %s" % (self.tick(), self.req - 1, hexs(b"NetConnection.Connect.Rejected"), hexs(b"busy")))
        else:
            self.app("accept %d %d" % (self.tick(), self.req - 1))

    def create_stream(self):
        self.peer(20, 0, command("createStream", self.rng.choice([2, 3, 7, 0]), NULL, []))
        self.streams.append(self.next_stream)
        self.next_stream += 1

    def sid(self):
        r = self.rng
        if self.streams and (self.clean or r.chance(4, 5)):
            return r.choice(self.streams)
        return r.choice([0, 1, 2, 5, 4294967295])

    def publish(self, sid=None):
        r = self.rng
        sid = self.sid() if sid is None else sid
        k = r.below(10) if not self.clean else 0
        key = S(r.choice(KEYS))
        if k < 6:
            args = [key, S(r.choice(["live", "LIVE", "record", "Append", "live"]))]
        elif k == 6:
            args = [key, S("bogus")]
        elif k == 7:
            args = [key]
        elif k == 8:
            args = [Num(1), S("live")]
        else:
            args = [key, Num(3)]
        self.peer(20, sid, command("publish", r.choice([0, 4, 5]), NULL, args))
        self.req += 1
        return sid

    def play(self, sid=None):
        r = self.rng
        sid = self.sid() if sid is None else sid
        args = [S(r.choice(KEYS))]
        if r.chance(1, 8) and not self.clean:
            args = [] if r.chance(1, 2) else [Num(4)]
        else:
            if r.chance(2, 3):
                args.append(r.choice([Num(-2), Num(-1), Num(0), Num(12.7), Num(-5), Num(float("nan")), Num(1e20), S("x")]))
                if r.chance(1, 2):
                    args.append(r.choice([Num(-1), Num(30), Num(4294967296.0), NULL]))
                    if r.chance(1, 2):
                        args.append(r.choice([("B", True), ("B", False), Num(1)]))
        self.peer(20, sid, command("play", 0, NULL, args))
        self.req += 1
        return sid

    def close_or_delete(self, sid=None):
        r = self.rng
        sid = self.sid() if sid is None else sid
        name = r.choice(["closeStream", "deleteStream"])
        args = [Num(sid)] if (self.clean or r.chance(5, 6)) else r.choice([[], [S("x")], [Num(sid + 0.5)]])
        if not self.clean and r.chance(1, 5):
            # further arguments after the stream id are ignored by the protocol: the FIRST one names the stream
            args = args + r.choice([[Num(sid + 1)], [NULL], [Num(1)], [Num(sid ^ 3), S("y")], [Num(0)]])
        self.peer(20, r.choice([0, sid]), command(name, 0, NULL, args))

    def media(self, sid=None):
        r = self.rng
        sid = self.sid() if sid is None else sid
        k = r.below(3)
        if k == 0:
            n = r.choice([0, 1, 100, 128, 129, 1000])
            self.peer(r.choice([8, 9]), sid, r.bytes(n), sep=False)
        elif k == 1:
            self.peer(r.choice([8, 9]), sid, r.bytes(r.below(300)), ts=r.choice([0, 0xFFFFFF, 0xFFFFFFFF, 5]), sep=False)
        else:
            j = r.below(8)
            props = Obj([("width", Num(1280)), ("height", Num(720.9)), ("framerate", Num(r.choice([30, 29.97, 1e300, -1]))),
                         ("videocodecid", r.choice([Num(7), S("avc1")])), ("audiodatarate", Num(-3)), ("stereo", ("B", True)),
                         ("encoder", S("obs")), ("audiochannels", Num(float("nan"))), ("audiosamplerate", Num(4294967296.0))][:r.range(0, 9)])
            if r.chance(1, 3):
                # values of an unexpected type or shape under the known names (short / non-ASCII strings where a number is usual, ...)
                props = Obj([(k, odd_value(r) if r.chance(1, 2) else v) for k, v in props[1]] +
                            ([("audiocodecid", odd_value(r))] if r.chance(1, 2) else []))
            if j == 0:
                vals = [S("@setDataFrame")]
            elif j == 1:
                vals = [S("@setDataFrame"), S("onMetaData")]
            elif j == 2:
                vals = [S("@setDataFrame"), S("other"), props]
            elif j == 3:
                vals = [S("@setDataFrame"), S("onMetaData"), S("notobject")]
            elif j == 4:
                vals = [S("onMetaData"), props]
            elif j == 5:
                vals = []
            else:
                vals = [S("@setDataFrame"), S("onMetaData"), props]
            self.peer(r.choice([18, 18, 15]), sid, amf(vals), sep=False)

    def control(self):
        r = self.rng
        k = r.below(9)
        if k == 0:
            self.peer(4, 0, struct.pack(">HI", 6, r.below(1 << 32)), sep=r.chance(1, 2))          # ping request
        elif k == 1:
            self.peer(4, 0, struct.pack(">HI", 7, r.below(1 << 32)))          # ping response
        elif k == 2:
            self.peer(3, 0, struct.pack(">I", r.below(1 << 32)))
        elif k == 3:
            w = r.choice([1, 2, 3, 10, 50, 100, 1000, 0xFFFFFFFF, 0])
            self.peer(5, 0, struct.pack(">I", w))
        elif k == 4:
            n = r.choice([1, 2, 64, 128, 200, 4096, 65536])
            old_cs = self.w.cs
            self.pending += self.w.set_chunk_size(n)
            if old_cs > 4096 or r.chance(1, 2):          # (the model needs minutes for input calls of hundreds of KB)
                self.flush()
            else:
                # the announcement and a message longer than the OLD chunk size in the same input call
                self.peer(r.choice([22, 255, 19]), 0, r.bytes(old_cs + r.range(1, 300)), sep=True)
        elif k == 5:
            self.peer(20, r.choice([0, 1]), command(r.choice(["FCPublish", "releaseStream", "_checkbw", "getStreamLength", ""]),
                                                    r.choice([0, 3]), NULL, [S("x")] if r.chance(1, 2) else []))
        elif k == 6:
            # not flushed at once: the next messages may arrive in the same input call (a handler that returns early would drop them)
            self.peer(r.choice([2, 6, 7, 22, 0, 255, 16, 19]), r.choice([0, 1]), r.bytes(r.below(8)) + b"\x00\x00\x00\x00\x00", sep=r.chance(1, 3))
        elif k == 7:
            self.peer(4, 0, struct.pack(">HII", 3, 1, 1000))
        else:
            self.peer(17, 0, b"\x00" + command("FCUnpublish", 0, NULL, [S("k")]))

    def stale_stream_request(self):
        """a publish / play request whose stream disappears (deleteStream) - or never existed - before the application answers: the
        accept fails, and the request id must be consumed all the same (a second accept or a reject is refused)"""
        r = self.rng
        if r.chance(2, 3):
            self.create_stream()
            sid = self.streams[-1]
            (self.publish if r.chance(1, 2) else self.play)(sid)
            self.peer(20, 0, command("deleteStream", 0, NULL, [Num(sid)]))
            if sid in self.streams:
                self.streams.remove(sid)
        else:
            sid = r.choice([7, 9, 4294967295])
            (self.publish if r.chance(1, 2) else self.play)(sid)
        rid = self.req - 1
        self.app("accept %d %d" % (self.tick(), rid))
        if r.chance(1, 2):
            self.app("accept %d %d" % (self.tick(), rid))
        else:
            self.app("reject %d %d %s %s" % (self.tick(), rid, hexs(b"NetStream.Publish.Failed"), hexs(b"gone")))

    def burst(self):
        """several messages of different kinds in ONE input call (where the call boundaries fall must not matter, C15): includes the
        message types a server rarely receives (Abort, Set Peer Bandwidth, Acknowledgement, unknown types) between ordinary ones"""
        r = self.rng
        for _ in range(r.range(3, 7)):
            k = r.below(8)
            if k == 0:
                self.pending += self.w.message(4, 0, r.below(1000), struct.pack(">HI", 6, r.below(1 << 32)))      # ping request
            elif k == 1:
                self.pending += self.w.message(r.choice([2, 6]), 0, r.below(1000), struct.pack(">I", r.below(1 << 32)) + b"\x02")
            elif k == 2:
                self.pending += self.w.message(3, 0, r.below(1000), struct.pack(">I", r.below(1 << 32)))
            elif k == 3:
                self.pending += self.w.message(r.choice([7, 22, 0, 255]), r.choice([0, 1]), r.below(1000), r.bytes(r.below(6)))
            elif k == 4:
                self.pending += self.w.message(20, 0, r.below(1000), command("createStream", r.choice([2, 3]), NULL, []))
                self.streams.append(self.next_stream)
                self.next_stream += 1
            elif k == 5 and self.streams:
                self.pending += self.w.message(r.choice([8, 9]), r.choice(self.streams), r.below(1 << 32), r.bytes(r.below(200)))
            elif k == 6:
                self.pending += self.w.message(4, 0, r.below(1000), struct.pack(">HI", 7, r.below(1 << 32)))      # ping response
            else:
                self.pending += self.w.message(20, 0, r.below(1000), command(r.choice(["FCPublish", "releaseStream", "_checkbw"]), 0, NULL, [S("x")]))
        self.flush()

    # --- application calls ---------------------------------------------------------------------
    def accept(self, rid=None):
        r = self.rng
        rid = (self.req - 1 if (self.clean or r.chance(4, 5)) else r.choice([0, 1, 2, 3, 7, 100])) if rid is None else rid
        if rid < 0:
            rid = 0
        self.app("accept %d %d" % (self.tick(), rid))

    def reject(self):
        r = self.rng
        rid = self.req - 1 if r.chance(3, 4) else r.choice([0, 1, 5])
        self.app("reject %d %d %s %s" % (self.tick(), max(rid, 0), hexs(b"NetConnection.Connect.Rejected"), hexs(r.choice([b"no", b"", "nö".encode()]))))

    def app_media(self):
        r = self.rng
        sid = self.sid()
        k = r.below(6)
        if k < 3:
            n = r.choice([0, 1, 10, 128, 129, 300, 5000])
            self.app("%s %d %d %d r%d.%d" % (r.choice(["video", "audio"]), sid, r.choice([0, 5, 0xFFFFFF, 0xFFFFFFFF, r.below(1 << 32)]), r.below(2), n, r.below(1 << 20)))
        elif k == 3:
            self.app("meta %d %d %s" % (self.tick(), sid, md_text(r)))
        elif k == 4:
            self.app("ping %d" % self.tick())
        else:
            self.app("finish %d %d" % (self.tick(), sid))


def gen_script(rng, tier):
    clean = rng.chance(1, 2)
    s = Script(rng, tier, clean)
    r = rng
    chunk = r.choice([4096, 128, 1, 2, 3, 5, 64, 65536, 0x7FFFFFFF] + ([] if clean else [0, 0x80000000])) if r.chance(1, 3) else 4096
    s.ops.append("cfg %s %d %d %d %d %d" % (hexs(r.choice([b"FMS/3,0,1,1233", b"", "vé".encode()])), chunk,
                                            r.choice([2500000, 0, 0xFFFFFFFF]), r.choice([1073741824, 1, 0, 5000]), r.below(2), s.tick()))
    style = r.below(10) if not clean else 0
    if style < 6:
        # canonical workflow with deviations
        if r.chance(1, 6):
            s.control()
        s.connect(malformed=r.chance(1, 12))
        if clean or r.chance(5, 6):
            s.accept()
        elif r.chance(1, 2):
            s.reject()
        for _ in range(r.range(0, 2)):
            s.control()
        if r.chance(1, 3):
            s.burst()
        if r.chance(1, 6):
            s.second_connect()
        if r.chance(1, 8):
            s.stale_stream_request()
        s.create_stream()
        sid = s.streams[-1]
        if r.chance(1, 2):
            s.publish(sid)
            if clean or r.chance(5, 6):
                s.accept()
            if r.chance(1, 6):
                s.second_connect()
            for _ in range(r.range(0, 8)):
                if r.chance(1, 6):
                    s.control()
                elif r.chance(1, 8):
                    s.app_media()
                else:
                    s.media(sid if r.chance(5, 6) else None)
            s.flush()
            if r.chance(2, 3):
                s.close_or_delete(sid)
                if r.chance(1, 3):
                    s.close_or_delete(sid)
                if r.chance(1, 3):
                    s.media(sid)
        else:
            s.play(sid)
            if clean or r.chance(5, 6):
                s.accept()
            if r.chance(1, 6):
                s.second_connect()
            for _ in range(r.range(0, 6)):
                s.app_media() if r.chance(3, 4) else s.control()
            if r.chance(1, 2):
                s.app("finish %d %d" % (s.tick(), sid))
            if r.chance(2, 3):
                s.close_or_delete(sid)
                if r.chance(1, 3):
                    s.close_or_delete(sid)
        if r.chance(1, 3):
            s.publish()
            s.accept()
            s.media()
    else:
        # free-form history
        for _ in range(r.range(3, 14)):
            k = r.below(14)
            [s.connect, s.create_stream, s.publish, s.play, s.close_or_delete, s.media, s.control, s.accept, s.accept, s.reject,
             s.app_media, s.burst, s.create_stream, lambda: s.connect(malformed=True)][k]()
    s.flush()
    return "server " + " | ".join(s.ops)


def ack_script(rng):
    """acknowledgement accounting: small windows, many call sizes, re-announcements"""
    s = Script(rng, "quick")
    s.ops.append("cfg %s 4096 2500000 1073741824 0 0" % hexs(b"v"))
    w = rng.choice([1, 2, 3, 4, 5, 6, 7, 8, 16, 100])
    # one script in four announces w plus a high part (bits 8..31): every bit of the 32-bit window counts, so the session
    # stays silent where a decoder that drops or masks bits would acknowledge every w bytes
    hi = rng.choice([1 << 31, 1 << 30, 3 << 30, 1 << 24, 1 << 16, 1 << 8, 0x80808000]) if rng.chance(1, 4) else 0
    s.peer(5, 0, struct.pack(">I", hi + w))
    for _ in range(rng.range(3, 12)):
        # a burst of small messages delivered with a fixed piece size
        n = rng.range(1, 6)
        data = b""
        for _ in range(n):
            data += s.w.message(rng.choice([3, 4, 8]), 0, rng.below(1000), struct.pack(">HI", 7, 5) if rng.chance(1, 2) else rng.bytes(rng.range(0, 2 * w + 3)))
        s.ops.append("in %d k%d %s" % (s.tick(), rng.range(1, w + 2), hexs(data)))
        if rng.chance(1, 5):
            w = rng.choice([1, 2, 3, 5, 8, 13, 50])
            s.peer(5, 0, struct.pack(">I", hi + w))
        if rng.chance(1, 6):
            # a Set Peer Bandwidth (any limit type, often smaller than the window) limits OUR output; it says nothing about the window
            s.peer(6, 0, struct.pack(">IB", rng.choice([0, 1, 2, max(1, w // 2), w, 1000]), rng.choice([0, 1, 2])))
    return "server " + " | ".join(s.ops)


def big_call_script(rng):
    """one input call larger than 2^16 bytes under a window the call crosses: the count is the call's size, whatever its size"""
    s = Script(rng, "quick")
    s.ops.append("cfg %s 4096 2500000 1073741824 0 0" % hexs(b"v") + "")
    w = rng.choice([70000, 100000, 131072, 200000])
    s.peer(5, 0, struct.pack(">I", w))
    s.pending += s.w.set_chunk_size(65536)
    s.flush()
    data = b""
    for _ in range(rng.range(1, 3)):
        data += s.w.message(rng.choice([22, 255]), 0, rng.below(1000), rng.bytes(rng.choice([66000, 70000, 100000])))
    s.ops.append("in %d %s %s" % (s.tick(), rng.choice(["w", "k65535", "k65536", "k70000"]), hexs(data)))
    s.peer(4, 0, struct.pack(">HI", 7, 5))
    return "server " + " | ".join(s.ops)


def fuzz_script(rng, tier):
    """network input no well-behaved peer sends: a generated script whose peer bytes are mutated, truncated or random"""
    from gens.chunk import mutate
    base = gen_script(rng, tier) if True else gen_script(rng)
    ops = base.split(" | ")
    out = []
    for op in ops:
        t = op.split()
        if t[0] == "in" and rng.chance(1, 2):
            data = bytes.fromhex(t[3]) if t[3] != "-" else b""
            k = rng.below(4)
            if k == 0:
                data = rng.bytes(rng.range(1, 60))
            else:
                for _ in range(rng.range(1, 3)):
                    data = mutate(rng, data)
            out.append("in %s %s %s" % (t[1], t[2], hexs(data)))
        else:
            out.append(op)
    return " | ".join(out)


def generate(rng, tier):
    n = 700 if tier == "quick" else 25000
    for _ in range(n // 3):
        yield fuzz_script(rng, tier)
    for _ in range(n):
        yield gen_script(rng, tier)
    for _ in range(n // 4):
        yield ack_script(rng)
    for _ in range(3 if tier == "quick" else 40):
        yield big_call_script(rng)


def nontrivial(case):
    return case.count("|") >= 3


def distribution(lines):
    d = {"scripts": len(lines), "ops": 0, "in": 0, "accept": 0, "reject": 0, "media_calls": 0, "ping": 0, "finish": 0, "meta": 0}
    for l in lines:
        for op in l.split(" | "):
            t = op.split()
            d["ops"] += 1
            k = t[0] if t[0] != "server" else t[1]
            if k in ("video", "audio"):
                d["media_calls"] += 1
            elif k in d:
                d[k] += 1
    return d
