"""Case generator for component `time` (rtmp/src/time.rs)."""
BOUND = [0, 1, 2, 0x7FFFFFFE, 0x7FFFFFFF, 0x80000000, 0x80000001, 0xFFFFFFFE, 0xFFFFFFFF, 0xFFFFFF, 0x1000000]
DIST = [0, 1, 2, 0x7FFFFFFE, 0x7FFFFFFF, 0x80000000, 0x80000001, 0x80000002, 0xFFFFFFFE, 0xFFFFFFFF]
M = 1 << 32


def generate(rng, tier):
    n = 4000 if tier == "quick" else 200000
    for a in BOUND:
        for d in DIST:
            b = (a + d) % M
            for op in ("add", "sub", "cmp"):
                yield "time %s %d %d" % (op, a, d if op != "cmp" else b)
            yield "time cmp %d %d" % (b, a)
    for i in range(n):
        a = rng.choice(BOUND) if rng.chance(1, 4) else rng.below(M)
        k = rng.below(10)
        if k < 3:
            d = rng.choice(DIST)
        elif k < 5:
            d = (0x80000000 + rng.range(-3, 3)) % M
        else:
            d = rng.below(M)
        op = rng.choice(["add", "sub", "cmp", "cmp", "cmp"])
        if op == "cmp":
            if rng.chance(1, 2):
                yield "time cmp %d %d" % (a, (a + d) % M)
            else:
                yield "time cmp %d %d" % ((a + d) % M, a)
        else:
            yield "time %s %d %d" % (op, a, d)


def nontrivial(case):
    t = case.split()
    return t[2] != t[3] and t[3] != "0"


def distribution(lines):
    d = {"add": 0, "sub": 0, "cmp": 0, "cmp_antipode": 0, "cmp_wrapping": 0}
    for l in lines:
        t = l.split()
        d[t[1]] = d.get(t[1], 0) + 1
        if t[1] == "cmp":
            a, b = int(t[2]), int(t[3])
            if (b - a) % M == 0x80000000:
                d["cmp_antipode"] += 1
            if abs(a - b) > 0x7FFFFFFF:
                d["cmp_wrapping"] += 1
    return d
