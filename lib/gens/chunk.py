"""Case generator for component `chunk` (ChunkSerializer / ChunkDeserializer).

Contains an independent specification-following chunk ENCODER (senc) written from RTMP 1.0 section 5.3.1:
random csid (1/2/3 byte forms), legal header format choices, extended timestamps, zero-length messages,
in-band chunk-size changes and (optionally) interleaving of messages on distinct chunk streams."""
import struct
from common import hexs

M32 = 1 << 32
TS_BOUND = [0, 1, 2, 0xFFFFFE, 0xFFFFFF, 0x1000000, 0x1000001, 0x7FFFFFFF, 0x80000000, 0xFFFFFFFE, 0xFFFFFFFF]


def pbyte(seed, i):
    return ((seed * 131 + i * 2654435 + (i // 256) * 977) % 1000003) % 256


def payload_bytes(spec):
    if spec[0] == "h":
        return bytes.fromhex(spec[1:]) if spec[1:] != "-" and spec[1:] else b""
    ln, seed = spec[1:].split(".")
    return bytes(pbyte(int(seed), i) for i in range(int(ln)))


def fnv32(data):
    h = 2166136261
    for b in data:
        h = ((h ^ b) * 16777619) & 0xFFFFFFFF
    return h


def show_msg(ts, tid, sid, data):
    return "M:%d:%d:%d:%d:%08x" % (ts % M32, tid, sid, len(data), fnv32(data))


def rand_payload_spec(rng, cs, tier):
    k = rng.below(20)
    if k < 2:
        n = 0
    elif k < 6:
        n = rng.range(1, 12)
    elif k < 12:
        n = rng.choice([cs - 1, cs, cs + 1, 2 * cs - 1, 2 * cs, 2 * cs + 1, 3 * cs + 5, 5 * cs])
    elif k < 18:
        n = rng.range(1, 700)
    else:
        n = rng.range(1000, 20000 if (tier == "thorough" and rng.chance(1, 20)) else 9000)
    n = max(0, min(n, 200000))
    if n <= 16 and rng.chance(1, 2):
        return "h" + bytes(rng.below(256) for _ in range(n)).hex()
    return "r%d.%d" % (n, rng.below(1 << 20))


def rand_ts(rng, prev, state):
    k = rng.below(12)
    if k < 2:
        return rng.choice(TS_BOUND)
    if k < 5:
        return (prev + rng.range(0, 50)) % M32
    if k < 7:
        return (prev + state.setdefault("step", rng.choice([0, 20, 33, 0xFFFFFF, 0x1000000, M32 - 10, 0x80000000]))) % M32   # constant step: formats 2/3
    if k == 7:
        return (prev - rng.range(1, 100)) % M32
    if k == 8:
        return (prev + rng.choice([0xFFFFFE, 0xFFFFFF, 0x1000000, 0x7FFFFFFF, 0x80000000])) % M32
    if k == 9:
        state["step"] = rng.choice([0, 20, 33, 0xFFFFFF, 0x1000000, M32 - 10, 0x80000000, rng.below(M32)])
        return (prev + state["step"]) % M32
    return rng.below(M32)


TIDS = [8, 9, 18, 20, 4, 3, 5, 6, 2, 0, 7, 15, 17, 19, 22, 255, 1]


def rand_ops(rng, tier, nmax=14):
    """library-side op sequence: messages with repeated (tid, sid, len) patterns, chunk size changes"""
    ops = []
    cs = 128
    n = rng.range(1, nmax)
    state = {}
    last = {}      # per tid: (ts, sid, payload spec)
    tids = [rng.choice(TIDS[:4]) for _ in range(2)] + [rng.choice(TIDS)]
    for _ in range(n):
        if rng.chance(1, 9):
            size = rng.choice([1, 2, 3, 4, 5, 64, 127, 128, 129, 4096, 4097, 5000, 8192, 65536, 0x7FFFFFFF, rng.range(1, 300), rng.range(1, 70000),
                               16777215, 16777216, 16777217, 0x1000080, 0x2000000, 0x7F000000, rng.range(1 << 24, (1 << 31) - 1)])
            if rng.chance(1, 25):
                size = rng.choice([0, 0x80000000, 0xFFFFFFFF])      # refused
            ops.append("c:%d:%d" % (size, rng.choice([0, 0, rng.below(M32)])))
            if 1 <= size <= 0x7FFFFFFF:
                cs = size
            continue
        tid = rng.choice(tids)
        if tid == 1:
            tid = 8
        prev = last.get(tid)
        sid = prev[1] if prev and rng.chance(5, 6) else rng.choice([0, 1, 1, 2, 0xFFFFFFFF, rng.below(M32)])
        # payloads are scaled to the chunk size up to 5000 (chunk sizes 4097 and 5000 give multi-chunk messages above the 4096 mark)
        pl = prev[2] if prev and rng.chance(1, 2) else rand_payload_spec(rng, min(cs, 5000), tier)
        if prev and rng.chance(1, 3) and pl[0] == "r":       # same length, other content
            pl = "r%s.%d" % (pl[1:].split(".")[0], rng.below(1 << 20))
        ts = rand_ts(rng, prev[0] if prev else 0, state)
        force = rng.chance(1, 8)
        drop = rng.chance(1, 4)
        if last and rng.chance(1, 7):
            # same stream id and payload length as the last message of ANOTHER type (types sharing a chunk stream: a compressed
            # header may omit the type only if it is the same)
            otid, o = rng.choice(sorted(last.items()))
            mates = {18: [19], 19: [18], 20: [17, 15, 22], 17: [20], 15: [20, 17], 22: [20], 2: [3, 4], 3: [4, 5], 4: [3, 6], 5: [4], 6: [5, 2]}
            if otid in mates:
                tid = rng.choice(mates[otid])
            sid, pl, force = o[1], o[2], 0
            ts = (o[0] + rng.choice([0, 20, state.get("step", 33)])) % M32
        ops.append("m:%d:%d:%d:%d%d:%s" % (ts, tid, sid, force, drop, pl))
        last[tid] = (ts, sid, pl)
        if rng.chance(1, 9):
            # a droppable twin: same type, stream and timestamp, both droppable (pieces of one frame); either may be withheld alone
            pl2 = pl if rng.chance(1, 2) else rand_payload_spec(rng, min(cs, 5000), tier)
            ops[-1] = "m:%d:%d:%d:01:%s" % (ts, tid, sid, pl)
            ops.append("m:%d:%d:%d:01:%s" % (ts, tid, sid, pl2))
            last[tid] = (ts, sid, pl2)
    return ops


def rand_part(rng, total=0):
    """partition spec; byte-wise and tiny pieces only for short streams (the list-based model re-scans its buffer per call)"""
    k = rng.below(8)
    if k < 2:
        return "w"
    if k < 4:
        return "b" if total <= 3000 else "k%d" % rng.choice([97, 128, 129, 500])
    if k == 4:
        return "k%d" % (rng.choice([2, 3, 5, 7, 11, 13, 100, 128, 129, 1000]) if total <= 3000 else rng.choice([100, 128, 129, 1000]))
    return "r%d" % rng.below(100000)


def ops_total(ops):
    t = 0
    for o in ops:
        if o.startswith("m:"):
            pl = o.split(":")[5]
            t += (len(pl) - 1) // 2 if pl[0] == "h" else int(pl[1:].split(".")[0])
        t += 20
    return t


# ------------------------------------------------------------------------- spec encoder (independent)
def basic_header(fmt, csid, form):
    if form == 1:
        return bytes([fmt * 64 + csid])
    if form == 2:
        return bytes([fmt * 64, csid - 64])
    return bytes([fmt * 64 + 1, (csid - 64) % 256, (csid - 64) // 256])


def emit(fmt, csid, form, field, ln, tid, sid, payload, ext_present=None):
    out = basic_header(fmt, csid, form)
    ts24 = min(field, 0xFFFFFF)
    if fmt == 0:
        out += struct.pack(">I", ts24)[1:] + struct.pack(">I", ln)[1:] + bytes([tid]) + struct.pack("<I", sid)
    elif fmt == 1:
        out += struct.pack(">I", ts24)[1:] + struct.pack(">I", ln)[1:] + bytes([tid])
    elif fmt == 2:
        out += struct.pack(">I", ts24)[1:]
    if field >= 0xFFFFFF:
        out += struct.pack(">I", field)
    return out + payload


def pick_csid(rng):
    k = rng.below(10)
    if k < 4:
        c = rng.range(2, 63)
        return c, 1
    if k < 7:
        c = rng.choice([64, 65, 255, 256, 319, rng.range(64, 319)])
        return c, rng.choice([2, 3])
    c = rng.choice([320, 519, 520, 65599, 65598, 264 + 256, rng.range(320, 65599)])
    return c, 3


def senc(rng, tier, interleave):
    """returns (stream bytes, expected message text list)"""
    nstreams = rng.range(1, 4)
    streams = []
    used = set()
    while len(streams) < nstreams:
        c, f = pick_csid(rng)
        if c in used:
            continue
        # provoke aliasing bugs: a second chunk stream exactly 256 apart, or 65536 apart (ids 65536..65599 exist: 64 + a 16-bit value)
        if rng.chance(1, 4) and c + 256 <= 65599 and (c + 256) not in used and len(streams) + 1 < nstreams:
            used.add(c + 256)
            streams.append({"csid": c + 256, "form": 3, "prev": None})
        if rng.chance(1, 5) and 2 <= c <= 63 and (c + 65536) not in used and len(streams) + 1 < nstreams:
            used.add(c + 65536)
            streams.append({"csid": c + 65536, "form": 3, "prev": None})
        used.add(c)
        streams.append({"csid": c, "form": f, "prev": None})
    cs = 128
    out = b""
    expected = []
    nmsg = rng.range(1, 10)
    pending = []          # in-flight messages (interleaving): dicts
    state = {}

    def start_message(st):
        nonlocal cs
        prev = st["prev"]
        ln = rng.choice([0, 1, 5, cs - 1, cs, cs + 1, 2 * cs, 2 * cs + 3, 3 * cs + 1, rng.range(0, 600)])
        ln = max(0, min(ln, 20000))
        if prev and rng.chance(1, 2):
            ln = prev["len"]
        data = bytes(pbyte(rng.below(1 << 20), i) for i in range(ln)) if ln > 12 else bytes(rng.below(256) for _ in range(ln))
        tid = prev["tid"] if prev and rng.chance(2, 3) else rng.choice([8, 9, 18, 20, 4, 22])
        if tid == 1:          # a Set Chunk Size message is only produced by the in-band change below
            tid = 8
        sid = prev["sid"] if prev and rng.chance(3, 4) else rng.choice([0, 1, 5, 0xFFFFFFFF, rng.below(M32)])
        # legal formats
        fmts = [0]
        if prev:
            ts_choices = []
            delta = rng.choice([0, 1, 33, 0xFFFFFE, 0xFFFFFF, 0x1000000, 0x7FFFFFFF, rng.below(1 << 24), rng.below(M32)])
            if rng.chance(1, 3):
                delta = prev["field"]
            ts = (prev["ts"] + delta) % M32
            if sid == prev["sid"]:
                fmts.append(1)
                if ln == prev["len"] and tid == prev["tid"]:
                    fmts.append(2)
                    if delta == prev["field"]:
                        fmts.append(3)
        else:
            ts = rng.choice(TS_BOUND + [rng.below(M32), rng.below(1 << 24)])
            delta = 0
        fmt = fmts[-1] if rng.chance(2, 3) else rng.choice(fmts)
        field = ts if fmt == 0 else (delta if fmt in (1, 2) else prev["field"])
        return {"st": st, "fmt": fmt, "field": field, "ts": ts, "len": ln, "tid": tid, "sid": sid, "data": data, "pos": 0, "first": True}

    def emit_next_chunk(msg):
        nonlocal out, cs
        st = msg["st"]
        take = min(len(msg["data"]) - msg["pos"], cs)
        payload = msg["data"][msg["pos"]:msg["pos"] + take]
        if msg["first"]:
            out += emit(msg["fmt"], st["csid"], st["form"], msg["field"], msg["len"], msg["tid"], msg["sid"], payload)
            st["prev"] = {"ts": msg["ts"], "field": msg["field"], "len": msg["len"], "tid": msg["tid"], "sid": msg["sid"]}
            msg["first"] = False
        else:
            # continuation: format 3 (extended timestamp repeated when the last field was >= 0xFFFFFF)
            fld = st["prev"]["field"]
            if fld >= 0xFFFFFF and rng.chance(1, 3):
                pass
            out += emit(3, st["csid"], st["form"], fld if fld >= 0xFFFFFF else 0, 0, 0, 0, payload)
        msg["pos"] += take
        if msg["pos"] >= len(msg["data"]):
            expected.append(show_msg(msg["ts"], msg["tid"], msg["sid"], msg["data"]))
            return True
        return False

    produced = 0
    while produced < nmsg or pending:
        # in-band chunk size change between messages (only when nothing is in flight: applies to all streams)
        if not pending and rng.chance(1, 7):
            newcs = rng.choice([1, 2, 3, 7, 64, 128, 129, 1000, 4096, 4097, 5000, 8192, rng.range(1, 500)])
            if rng.chance(1, 5):
                # every announced size up to 2^31 - 1 is legal, also those above the 24-bit message length limit
                newcs = rng.choice([65536, 16777215, 16777216, 0x1000080, 0x7FFFFFFF, rng.range(1 << 24, (1 << 31) - 1)])
            st2 = {"csid": 2, "form": 1, "prev": None}
            for s in streams:
                if s["csid"] == 2:
                    st2 = s
            body = struct.pack(">I", newcs)
            # Set Chunk Size goes on chunk stream 2, message stream 0, format 0
            m = {"st": st2, "fmt": 0, "field": 0, "ts": 0, "len": 4, "tid": 1, "sid": 0, "data": body, "pos": 0, "first": True}
            while not emit_next_chunk(m):
                pass
            cs = newcs
            continue
        free = [s for s in streams if not any(p["st"] is s for p in pending)]
        can_start = produced < nmsg and free and (interleave or not pending)
        if can_start and (not pending or rng.chance(1, 2)):
            pending.append(start_message(rng.choice(free)))
            produced += 1
        msg = rng.choice(pending) if interleave else pending[0]
        if emit_next_chunk(msg):
            pending.remove(msg)
    return out, expected


def mutate(rng, data):
    b = bytearray(data)
    k = rng.below(4)
    if k == 0 and b:
        b = b[:rng.below(len(b))]
    elif k == 1 and b:
        b[rng.below(len(b))] ^= 1 << rng.below(8)
    elif k == 2 and b:
        i = rng.below(len(b))
        b[i] = rng.choice([0, 1, 0x3f, 0x40, 0x41, 0x7f, 0x80, 0xc0, 0xc1, 0xc2, 0xff])
    else:
        i = rng.below(len(b) + 1)
        b[i:i] = bytes([rng.below(256) for _ in range(rng.range(1, 4))])
    return bytes(b)


HAND = [
    # corpus of boundary cases kept in the generator: (description, case)
    "chunk ser m:0:8:1:00:h",                                    # zero-length payload (pre-F1: empty packet)
    "chunk rt w - m:0:8:1:00:h m:5:8:1:00:h m:9:8:1:00:h01",
    "chunk ser c:0:0",                                           # chunk size 0 (pre-F11: accepted)
    "chunk ser c:2147483648:0 c:2147483647:0 m:1:9:1:00:r300.7",
    "chunk ser c:1:0 m:1:9:1:00:r5.1 c:3:7 m:1:9:1:00:r5.1",    # announcement sized by the OLD chunk size
    "chunk rt b - c:1:0 m:1:9:1:00:r5.1 c:2:7 m:1:9:1:00:r5.1 c:3:9 m:9:9:1:00:r9.4",
    "chunk rt b - m:100:8:1:00:r10.1 m:90:8:1:00:r10.2 m:80:8:1:00:r10.3 m:70:8:1:00:r10.4",   # type 3 with extended delta
    "chunk rt b - m:16777215:8:1:00:r300.1 m:33554430:8:1:00:r300.2 m:50331645:8:1:00:r300.3",
    "chunk rt r7 - m:4294967290:9:1:00:r300.1 m:5:9:1:00:r300.2 m:20:9:1:00:r300.3",
    "chunk rt w 1 m:10:9:1:01:r10.1 m:20:8:1:00:r10.2 m:30:9:1:00:r10.3",                        # drop on csid 4, other csid in between
    "chunk rt w 10 m:10:9:1:01:r10.1 c:77:0 m:30:9:1:01:r10.3 m:50:9:1:00:r10.3",
    "chunk rt w - c:16777216:0 m:1:9:1:00:r300.7 m:2:9:1:00:r300.8",                             # chunk sizes at and above 2^24
    "chunk rt r5 - c:16777344:0 m:1:9:1:00:r300.7 c:2130706432:5 m:2:9:1:00:r300.8",
]


def generate(rng, tier):
    n_ser = 700 if tier == "quick" else 4000
    n_rt = 1200 if tier == "quick" else 7000
    n_f = 700 if tier == "quick" else 4500
    n_bad = 500 if tier == "quick" else 4000
    for c in HAND:
        yield c
    # 16777215 / 16777216 byte payloads: accepted / refused
    yield "chunk ser m:5:9:1:00:r16777216.1"          # one byte past the limit: refused (cheap: an error comes back)
    yield "chunk ser m:6:8:1:00:r16777217.2"
    if tier == "thorough":
        yield "chunk ser m:5:9:1:00:r16777215.3"
    for _ in range(n_ser):
        yield "chunk ser " + " ".join(rand_ops(rng, tier))
    for _ in range(n_rt):
        ops = rand_ops(rng, tier)
        nd = sum(1 for o in ops if o.startswith("m:") and o.split(":")[4][1] == "1")
        mask = "-"
        if nd and rng.chance(2, 3):
            mask = "".join(rng.choice("01") for _ in range(nd))
        yield "chunk rt %s %s %s" % (rand_part(rng, ops_total(ops)), mask, " ".join(ops))
    # exhaustive drop masks for a few sequences with <= 6 droppable packets
    for _ in range(6 if tier == "quick" else 60):
        ops = rand_ops(rng, tier, 10)
        nd = sum(1 for o in ops if o.startswith("m:") and o.split(":")[4][1] == "1")
        if 1 <= nd <= 6:
            for m in range(1 << nd):
                yield "chunk rt w %s %s" % (format(m, "0%db" % nd), " ".join(ops))
    for i in range(n_f):
        stream, exp = senc(rng, tier, interleave=(i % 2 == 1))
        yield "chunk %s %s %s | %s" % ("ide" if i % 2 == 1 else "fde", rand_part(rng, len(stream)), hexs(stream), " ".join(exp) if exp else ".")
    for i in range(n_bad):
        if rng.chance(1, 4):
            data = rng.bytes(rng.range(1, 40))
        else:
            data, _ = senc(rng, tier, interleave=rng.chance(1, 2))
            for _ in range(rng.range(1, 2)):
                data = mutate(rng, data)
        yield "chunk de %s %s" % (rand_part(rng, len(data)), hexs(data[:60000]))


def nontrivial(case):
    t = case.split()
    return len(t) > 3


def distribution(lines):
    d = {"ser": 0, "rt": 0, "fde": 0, "ide": 0, "de": 0, "rt_with_drops": 0, "ops_msg": 0, "ops_size": 0, "forced": 0, "droppable": 0,
         "part_whole": 0, "part_bytewise": 0, "part_random": 0, "part_fixed": 0, "zero_len_payload": 0, "ext_timestamp_msgs": 0}
    for l in lines:
        t = l.split()
        d[t[1]] = d.get(t[1], 0) + 1
        if t[1] in ("rt", "de", "fde", "ide"):
            p = t[2][0]
            d[{"w": "part_whole", "b": "part_bytewise", "r": "part_random", "k": "part_fixed"}[p]] += 1
        if t[1] == "rt" and t[3] != "-" and "1" in t[3]:
            d["rt_with_drops"] += 1
        if t[1] in ("ser", "rt"):
            for o in t[2:]:
                if o.startswith("m:"):
                    f = o.split(":")
                    d["ops_msg"] += 1
                    d["forced"] += f[4][0] == "1"
                    d["droppable"] += f[4][1] == "1"
                    d["zero_len_payload"] += f[5] in ("h", "r0.0") or f[5].startswith("r0.")
                    d["ext_timestamp_msgs"] += int(f[1]) >= 0xFFFFFF
                elif o.startswith("c:"):
                    d["ops_size"] += 1
    return d
