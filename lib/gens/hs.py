"""Case generator for component `hs` (Handshake). Contains an independent reference implementation of the
Flash-Player-9 style handshake packets (hashlib / hmac) used to play the peer and to state expectations."""
import hashlib, hmac
from common import hexs
from gens.chunk import rand_part

FMS = b"Genuine Adobe Flash Media Server 001"
FP = b"Genuine Adobe Flash Player 001"
CRUD = bytes([0xf0, 0xee, 0xc2, 0x4a, 0x80, 0x68, 0xbe, 0xe8, 0x2e, 0x00, 0xd0, 0xd1, 0x02, 0x9e, 0x7e, 0x57, 0x6e, 0xec, 0x5d, 0x2d,
              0x29, 0x80, 0x6f, 0xab, 0x93, 0xb8, 0xe6, 0x36, 0xcf, 0xeb, 0x31, 0xae])


def H(key, msg):
    return hmac.new(key, msg, hashlib.sha256).digest()


def offset(p, scheme):
    # scheme 1: pointer bytes 8..12, digest in 12..740 ; scheme 2: pointer bytes 772..776, digest in 776..1504
    if scheme == 1:
        return sum(p[8:12]) % 728 + 12
    return sum(p[772:776]) % 728 + 776


def make_p1(key, body1528, scheme, head8=None):
    """a digest-bearing packet 1: 4 time bytes, 4 version bytes (the library writes zero time and 128.0.7.2; a peer may write
    anything - the digest schemes do not depend on them), 1528 bytes of content with the digest written in"""
    p = bytearray((head8 or (b"\x00\x00\x00\x00" + bytes([128, 0, 7, 2]))) + body1528)
    off = offset(p, scheme)
    d = H(key, bytes(p[:off]) + bytes(p[off + 32:]))
    p[off:off + 32] = d
    return bytes(p), d, off


def lib_p1(role, rand1524):
    """what the library generates from its random source (server: scheme 2, client: scheme 1)"""
    body = rand1524 + b"\x00\x00\x00\x00"
    return make_p1(FMS if role == "server" else FP, body, 2 if role == "server" else 1)


def find_digest(p, key):
    for scheme in (1, 2):
        off = offset(p, scheme)
        if H(key, p[:off] + p[off + 32:]) == p[off:off + 32]:
            return p[off:off + 32]
    return None


def lib_p2(role, peer_p1, rand1536):
    d = find_digest(peer_p1, FP if role == "server" else FMS)
    if d is None:
        return peer_p1, False
    key = (FMS if role == "server" else FP) + CRUD
    body = rand1536[:1504]
    return body + H(H(key, d), body), True


def pointer_bytes_for(target_mod, rng):
    """four bytes whose sum is congruent to target_mod (mod 728), sum in 0..1020"""
    s = target_mod if target_mod <= 1020 and rng.chance(2, 3) else (target_mod + 728 if target_mod + 728 <= 1020 else target_mod)
    out = []
    for i in range(4):
        hi = min(255, s)
        lo = max(0, s - 255 * (3 - i))
        v = rng.range(lo, hi)
        out.append(v)
        s -= v
    return bytes(out)


def one_case(rng, role, own_offset_mod=None, peer_offset_mod=None, peer_kind=None, trailing=None):
    peer_role = "client" if role == "server" else "server"
    rand = bytearray(rng.bytes(1524 + 1536))
    # choose the library's own digest offset by pinning its pointer bytes (server: 772..776 -> rand index 764; client: 8..12 -> index 0)
    if own_offset_mod is not None:
        i = 764 if role == "server" else 0
        rand[i:i + 4] = pointer_bytes_for(own_offset_mod, rng)
    rand = bytes(rand)
    own_p1, own_d, own_off = lib_p1(role, rand[:1524])
    peer_kind = peer_kind or rng.choice(["lib", "scheme1", "scheme2", "orig", "orig", "near"])
    pbody = bytearray(rng.bytes(1528))
    if peer_kind == "orig":
        peer_p1 = b"\x00\x00\x00\x00" + rng.choice([b"\x00\x00\x00\x00", bytes([9, 0, 124, 2])]) + bytes(pbody)
    else:
        scheme = {"lib": 1 if peer_role == "client" else 2, "scheme1": 1, "scheme2": 2, "near": rng.choice([1, 2])}[peer_kind]
        if peer_offset_mod is not None:
            i = 0 if scheme == 1 else 764
            pbody[i:i + 4] = pointer_bytes_for(peer_offset_mod, rng)
        head8 = None
        if rng.chance(1, 2):       # peers with other time / version fields, including all-zero ones
            head8 = rng.choice([b"\x00" * 4, rng.bytes(4)]) + rng.choice([b"\x00" * 4, bytes([9, 0, 124, 2]), bytes([10, 0, 32, 18]), bytes([0, 0, 0, 1]), rng.bytes(4)])
        peer_p1, _, poff = make_p1(FP if peer_role == "client" else FMS, bytes(pbody), scheme, head8)
        if peer_kind == "near":
            # a digest that is wrong in exactly one byte (often the last, sometimes the first or any other): no valid digest, so an echo is due
            j = rng.choice([31, 31, 0, 30, rng.below(32)])
            q = bytearray(peer_p1); q[poff + j] ^= 1 << rng.below(8); peer_p1 = bytes(q)
    own_p2, signed = lib_p2(role, peer_p1, rand[1524:])
    # the peer's packet 2: echo of our packet 1 (original handshake) or a signed packet (any content: not verified by the library)
    if peer_kind == "orig" or rng.chance(1, 4):
        peer_p2 = own_p1
    else:
        body = rng.bytes(1504)
        peer_p2 = body + H(H((FP if peer_role == "client" else FMS) + CRUD, own_d), body)
    trailing = rng.bytes(rng.choice([0, 0, 1, 5, 200, 2000])) if trailing is None else trailing
    peer_stream = b"\x03" + peer_p1 + peer_p2
    ops = ["new %s %s" % (role, hexs(rand))]
    style = rng.below(4)
    if role == "client" or style == 0:
        ops.append("gen")
    # deliver the peer's handshake and the trailing application bytes under a random fragmentation;
    # sometimes the trailing bytes arrive in the same piece as the end of packet 2, sometimes later
    if rng.chance(1, 2):
        data = peer_stream + trailing
        ops.append("in %s %s" % (rand_part(rng, len(data)) if rng.chance(3, 4) else "k%d" % rng.choice([1, 7, 1536, 1537, 3073, 3074]), hexs(data)))
    else:
        cut = rng.choice([1, 2, 1537, 1538, 3072, rng.range(1, 3072)])
        ops.append("in %s %s" % (rand_part(rng, cut), hexs(peer_stream[:cut])))
        rest = peer_stream[cut:] + trailing
        ops.append("in %s %s" % (rand_part(rng, len(rest)), hexs(rest)))
    expected_emitted = b"\x03" + own_p1 + own_p2
    kind = "full"
    return "hs " + " | ".join(ops) + " || %s %s %s %d" % (kind, hexs(expected_emitted), hexs(trailing), 3073)


def generate(rng, tier):
    n = 160 if tier == "quick" else 3000
    for _ in range(n):
        yield one_case(rng, rng.choice(["server", "client"]))
    # every own digest offset / every received offset of both schemes (thorough: all 728; quick: a spread incl. boundaries)
    offs = list(range(728)) if tier == "thorough" else [0, 1, 2, 254, 255, 256, 291, 292, 293, 364, 509, 510, 511, 726, 727] + [rng.below(728) for _ in range(10)]
    for o in offs:
        for role in ("server", "client"):
            yield one_case(rng, role, own_offset_mod=o, peer_kind="lib")
            yield one_case(rng, role, peer_offset_mod=o, peer_kind="scheme1")
            yield one_case(rng, role, peer_offset_mod=o, peer_kind="scheme2")
    # malformed: wrong version byte, input after completion
    for _ in range(10):
        role = rng.choice(["server", "client"])
        yield "hs new %s %s | in w %s" % (role, hexs(rng.bytes(10)), hexs(bytes([rng.choice([0, 1, 2, 4, 6, 255])]) + rng.bytes(20)))


def nontrivial(case):
    return " in " in case


def distribution(lines):
    d = {"cases": len(lines), "server": 0, "client": 0, "with_gen_first": 0, "with_expectation": 0}
    for l in lines:
        d["server" if " new server " in l else "client"] += 1
        d["with_gen_first"] += " | gen | " in l
        d["with_expectation"] += " || " in l
    return d
