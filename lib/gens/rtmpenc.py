"""A small peer emulator used by the session generators: builds RTMP messages and chunks them
(independent Python encoder; shares emit() with gens/chunk.py)."""
import struct
from gens.chunk import emit, M32
from gens import amf0 as A


def S(s):
    return ("S", s if isinstance(s, bytes) else s.encode())


def Num(x):
    return ("N", struct.unpack(">Q", struct.pack(">d", float(x)))[0])


def Obj(d):
    return ("O", [(k.encode() if isinstance(k, str) else k, v) for k, v in d])


NULL = ("Z",)


def amf(values):
    return b"".join(A.ref_enc(v) for v in values)


def command(name, transaction, obj, args):
    return amf([S(name), Num(transaction), obj] + list(args))


class ChunkWriter:
    """typical sender: csid per message type, header compression when legal, one chunk size"""

    def __init__(self, rng, chunk_size=128):
        self.rng = rng
        self.cs = chunk_size
        self.prev = {}

    def csid_for(self, tid):
        return {1: 2, 2: 2, 3: 2, 4: 2, 5: 2, 6: 2, 20: 3, 17: 3, 18: 4, 15: 4, 8: 6, 9: 7}.get(tid, 5)

    def message(self, tid, sid, ts, payload, csid=None, compress=True):
        csid = csid or self.csid_for(tid)
        form = 1 if csid < 64 else (2 if csid < 320 else 3)
        p = self.prev.get(csid)
        fmt, field = 0, ts % M32
        if p and compress:
            delta = (ts - p["ts"]) % M32
            if sid == p["sid"]:
                fmt, field = 1, delta
                if tid == p["tid"] and len(payload) == p["len"]:
                    fmt = 2
                    if delta == p["field"]:
                        fmt = 3
            if self.rng.chance(1, 5):
                fmt, field = 0, ts % M32
        out = b""
        pos = 0
        first = True
        while first or pos < len(payload):
            take = payload[pos:pos + self.cs]
            if first:
                out += emit(fmt, csid, form, field, len(payload), tid, sid, take)
                first = False
            else:
                out += emit(3, csid, form, field if field >= 0xFFFFFF else 0, 0, 0, 0, take)
            pos += len(take)
            if not payload:
                break
        self.prev[csid] = {"ts": ts % M32, "field": field, "len": len(payload), "tid": tid, "sid": sid}
        return out

    def set_chunk_size(self, n):
        b = self.message(1, 0, 0, struct.pack(">I", n), compress=False)
        self.cs = n
        return b
