"""Case generator for component `pair`: chunk streams and session scripts run under two different partitions (C15)."""
from common import SplitMix, hexs
from gens import chunk as C
from gens import server as S
from gens import client as CL

PARTS = ["w", "b", "k2", "k3", "k7", "k100", "k128", "k129", "k1000"]


def two_parts(rng, total):
    small = total <= 3000
    def one():
        k = rng.below(4)
        if k == 0:
            return "w"
        if k == 1:
            return "b" if small else "k%d" % rng.choice([97, 128, 129])
        if k == 2:
            return rng.choice(PARTS[2:]) if small else rng.choice(PARTS[5:])
        return "r%d" % rng.below(100000)
    a = one()
    b = one()
    while b == a:
        b = one()
    return a, b


def no_window(script):
    # scripts in which the peer announces an acknowledgement window are outside C15's session oracle (DESIGN 10.4)
    return "00000405" not in script and "0000040500" not in script


def generate(rng, tier):
    n = 300 if tier == "quick" else 10000
    for i in range(n):
        k = rng.below(4)
        if k == 0:
            data, _ = C.senc(rng, tier, interleave=rng.chance(1, 2))
            if rng.chance(1, 3):
                data = C.mutate(rng, data)
            a, b = two_parts(rng, len(data))
            yield "pair %s %s chunk de w %s" % (a, b, hexs(data[:60000]))
        elif k == 1:
            ops = C.rand_ops(rng, tier)
            a, b = two_parts(rng, C.ops_total(ops))
            yield "pair %s %s chunk rt w - %s" % (a, b, " ".join(ops))
        else:
            script = (S.gen_script(rng, tier) if rng.chance(2, 3) else S.fuzz_script(rng, tier)) if k == 2 else \
                     (CL.gen_script(rng) if rng.chance(2, 3) else CL.fuzz_script(rng, tier))
            if not no_window(script):
                continue
            total = max([len(op.split()[3]) // 2 for op in script.split(" | ") if op.startswith("in ")] + [0])
            a, b = two_parts(rng, total)
            yield "pair %s %s %s" % (a, b, script)


def nontrivial(case):
    return len(case) > 40


def distribution(lines):
    d = {"chunk": 0, "server": 0, "client": 0}
    for l in lines:
        d[l.split()[3]] += 1
    return d
