"""Case generator for component `interop`: a ClientSession and a ServerSession wired back to back (harness/src/c_interop.rs).
Canonical scenarios (flag `canon`, C02 oracles apply): connect; publish or play; metadata/audio/video items with partial
deliveries in between; stop - under random configurations and fragmentation/interleaving schedules.
Free scripts (no flag): the same operations in any order, for model/implementation agreement and the generic oracles."""
from common import hexs
from gens.server import md_text

APPS = [b"live", b"app/", b"a", b"x" * 30, "αβ".encode(), b"live/ab"]
KEYS = [b"key", b"stream1", b"k" * 40, "clé".encode(), b"a?b=c"]
CHUNKS = [1, 2, 3, 127, 128, 129, 4096, 65536, 16777215, 2147483647]
WINDOWS = [1, 100, 2500, 5000, 2500000, 1073741824, 4294967295]
TS = [0, 1, 1000, 0xFFFFFE, 0xFFFFFF, 0x1000000, 0x7FFFFFFF, 0x80000000, 0xFFFFFFFF]


def cfg(rng, canon):
    """returns (cfg text, client chunk size, server chunk size); the text carries the marker `tw` when a window is below 64"""
    cchunk = rng.choice(CHUNKS) if rng.chance(1, 2) else rng.range(1, 10000)
    schunk = rng.choice(CHUNKS) if rng.chance(1, 2) else rng.range(1, 10000)
    if not canon and rng.chance(1, 10):
        cchunk = rng.choice([0, 2147483648])
    if not canon and rng.chance(1, 10):
        schunk = rng.choice([0, 2147483648])
    cwin = rng.choice(WINDOWS) if rng.chance(2, 3) else rng.range(0, 100000)
    swin = rng.choice(WINDOWS) if rng.chance(2, 3) else rng.range(0, 100000)
    if canon and cwin * swin < 4096:
        # both windows below the size of an acknowledgement (16 bytes) make the two sessions acknowledge each other's
        # acknowledgements without end (inherent in the protocol); canonical scenarios must be able to quiesce
        swin = max(swin, 4096)
    tc = "-" if rng.chance(1, 2) else "u" + hexs(b"rtmp://host/app")
    clock = rng.choice(TS) if rng.chance(1, 3) else rng.below(100000)
    return "cfg %s %d %d %d %s %s %d %d %d %d %d%s%s" % (
        hexs(rng.choice([b"WIN 23,0,0,207", b"x"])), rng.choice([0, 1000, 4294967295]), cwin, cchunk, tc,
        hexs(rng.choice([b"FMS/3,0,1,123", b"s"])), schunk, rng.choice([0, 2500000, 4294967295]), swin, rng.below(2), clock,
        " canon" if canon else "", " tw" if min(cwin, swin) < 64 else ""), cchunk, schunk


def sizes(rng, small):
    k = rng.below(6)
    if small and k == 0:
        return "1"
    if k == 1:
        return "4096"
    if k == 2:
        return "%d,%d" % (rng.range(1, 9), rng.range(1, 9)) if small else "%d,%d" % (rng.range(3000, 9000), rng.range(1000, 5000))
    if k == 3:
        return "1000000"
    if k == 4:
        return ",".join(str(rng.range(1, 300) if small else rng.range(2000, 50000)) for _ in range(rng.range(1, 5)))
    return "%d" % (rng.range(2, 40) if small else rng.range(2000, 20000))


def payload(rng, budget, chunk):
    k = rng.below(8)
    if k == 0:
        n = 0
    elif k == 1:
        n = 1
    elif k == 2:
        n = max(0, min(budget, chunk + rng.range(0, 2) - 1))
    elif k == 3 and budget >= 70000:
        n = rng.choice([65535, 65536, 65537, 70000])
    else:
        n = rng.range(0, min(budget, 600))
    return "r%d.%d" % (n, rng.below(1000)), n


def ts_of(rng, prev):
    k = rng.below(5)
    if k == 0:
        return rng.choice(TS)
    if k == 1:
        return rng.below(1 << 32)
    if k == 2:
        return (prev + rng.range(0, 50)) & 0xFFFFFFFF
    if k == 3:
        return (prev - rng.range(0, 50)) & 0xFFFFFFFF
    return (prev + 0xFFFFFF + rng.range(0, 3) - 1) & 0xFFFFFFFF


def canonical(rng, tier):
    c, cchunk, schunk = cfg(rng, True)
    small = rng.chance(1, 2) or min(cchunk, schunk) < 1000   # small scenarios may be delivered byte by byte
    budget = 1500 if small else 80000
    # a window below the size of an acknowledgement makes the peer answer every delivered byte with a 6..16 byte acknowledgement;
    # with byte-wise flushes that exceeds the flush loop's iteration cap (a harness limit, not a property of the sessions)
    tiny_window = c.endswith(" tw")
    fine = not tiny_window            # fine-grained (down to byte-wise) delivery schedules
    ops = [c, "connect " + hexs(rng.choice(APPS)), "flush " + sizes(rng, fine)]
    publishing = rng.chance(1, 2)
    key = hexs(rng.choice(KEYS))
    if publishing:
        ops.append("publish %s %s" % (key, rng.choice(["live", "record", "append"])))
    else:
        ops.append("play " + key)
    ops.append("flush " + sizes(rng, fine))
    prev = rng.choice(TS)
    total = 0
    last = None
    for _ in range(rng.range(0, 10)):
        k = rng.below(10)
        side = "c" if publishing else "s"
        if k == 0:
            ops.append("%smeta %s" % (side, md_text(rng).replace("fr=501502f9", "fr=41f00000")))
        elif last is not None and rng.chance(1, 4) and total + last[1] <= budget:
            # a twin of the previous item: same kind and length, same timestamp (or the same step again), not droppable -
            # the case in which a serializer may omit every header field, so whatever it remembers must be what it sent
            kind, n, step = last
            total += n
            prev = (prev + rng.choice([0, 0, step])) & 0xFFFFFFFF
            ops.append("%s%s %d 0 r%d.%d" % (side, kind, prev, n, rng.below(1000)))
        else:
            chunk = cchunk if publishing else schunk
            pl, n = payload(rng, max(0, budget - total), chunk)
            if rng.chance(1, 5) and 2 * chunk + 1 <= max(0, budget - total):
                n = 2 * chunk + rng.range(0, 2); pl = "r%d.%d" % (n, rng.below(1000))       # spans three chunks
            total += n
            before = prev
            prev = ts_of(rng, prev)
            kind = "video" if k % 2 else "audio"
            ops.append("%s%s %d %d %s" % (side, kind, prev, rng.below(2), pl))
            last = (kind, n, (prev - before) & 0xFFFFFFFF)
        if rng.chance(1, 3):
            ops.append("d %s %d" % (rng.choice(["c2s", "s2c"]), rng.choice([1, 5, 100, 5000]) if small else rng.choice([100, 5000, 100000])))
        if rng.chance(1, 8):
            ops.append("clk %d" % rng.below(1 << 32))
    ops.append("flush " + sizes(rng, small and fine))
    if rng.chance(4, 5):
        ops.append("stoppub" if publishing else "stopplay")
        ops.append("flush " + sizes(rng, small and fine))
    return "interop " + " | ".join(ops)


def free(rng, tier):
    c, cchunk, schunk = cfg(rng, False)
    ops = [c]
    prev = 0
    for _ in range(rng.range(2, 25)):
        k = rng.below(16)
        if k == 0:
            ops.append("connect " + hexs(rng.choice(APPS)))
        elif k == 1:
            ops.append("publish %s %s" % (hexs(rng.choice(KEYS)), rng.choice(["live", "record", "append"])))
        elif k == 2:
            ops.append("play " + hexs(rng.choice(KEYS)))
        elif k == 3:
            ops.append(rng.choice(["stoppub", "stopplay", "sfinish"]))
        elif k == 4:
            ops.append("%smeta %s" % (rng.choice("cs"), md_text(rng)))
        elif k in (5, 6, 7):
            pl, n = payload(rng, 3000, cchunk)
            prev = ts_of(rng, prev)
            ops.append("%s%s %d %d %s" % (rng.choice("cs"), rng.choice(["video", "audio"]), prev, rng.below(2), pl))
        elif k in (8, 9, 10):
            ops.append("d %s %d" % (rng.choice(["c2s", "s2c"]), rng.choice([1, 3, 12, 100, 5000])))
        elif k == 11:
            ops.append("clk %d" % rng.below(1 << 33))
        else:
            ops.append("flush " + sizes(rng, True))
    return "interop " + " | ".join(ops)


def generate(rng, tier):
    n = 260 if tier == "quick" else 8000
    for _ in range(n):
        yield canonical(rng, tier)
    for _ in range(n // 2):
        yield free(rng, tier)


def nontrivial(case):
    return case.count("|") >= 4


def distribution(lines):
    d = {"scripts": len(lines), "canonical": 0, "publish": 0, "play": 0, "media_items": 0, "metadata_items": 0, "partial_deliveries": 0,
         "bytewise_flushes": 0, "payload_ge_64k": 0, "zero_payload": 0, "stops": 0}
    for l in lines:
        if " canon" in l.split(" | ")[0]:
            d["canonical"] += 1
        for op in l.split(" | "):
            t = op.split()
            if t[0] == "interop":
                t = t[1:]
            if t[0] == "publish":
                d["publish"] += 1
            elif t[0] == "play":
                d["play"] += 1
            elif t[0] in ("cvideo", "caudio", "svideo", "saudio"):
                d["media_items"] += 1
                n = int(t[3][1:].split(".")[0])
                if n >= 65536:
                    d["payload_ge_64k"] += 1
                if n == 0:
                    d["zero_payload"] += 1
            elif t[0] in ("cmeta", "smeta"):
                d["metadata_items"] += 1
            elif t[0] == "d":
                d["partial_deliveries"] += 1
            elif t[0] == "flush" and t[1] == "1":
                d["bytewise_flushes"] += 1
            elif t[0] in ("stoppub", "stopplay"):
                d["stops"] += 1
    return d
