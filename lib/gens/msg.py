"""Case generator for component `msg` (RtmpMessage <-> MessagePayload)."""
import struct
from common import hexs
from gens import amf0 as A

U32 = [0, 1, 2, 127, 128, 255, 256, 65535, 65536, 0xFFFFFF, 0x1000000, 0x7FFFFFFE, 0x7FFFFFFF, 0x80000000, 0x80000001, 0xFFFFFFFE, 0xFFFFFFFF]
EVENTS = ["StreamBegin", "StreamEof", "StreamDry", "SetBufferLength", "StreamIsRecorded", "PingRequest", "PingResponse", "BufferEmpty", "BufferReady"]
KNOWN = [1, 2, 3, 4, 5, 6, 8, 9, 15, 17, 18, 20]


def u32(rng):
    return rng.choice(U32) if rng.chance(1, 2) else rng.below(1 << 32)


def rand_message(rng):
    k = rng.below(12)
    if k == 0:
        tid = rng.choice([t for t in range(256) if t not in KNOWN])
        return "Unknown %d %s" % (tid, hexs(rng.bytes(rng.below(20))))
    if k == 1:
        return "Abort %d" % u32(rng)
    if k == 2:
        return "Ack %d" % u32(rng)
    if k == 3:
        name = rng.choice([b"connect", b"createStream", b"publish", b"play", b"_result", b"onStatus", b"", A.rand_utf8(rng)])
        obj = A.rand_value(rng, rng.below(3))
        args = [A.rand_value(rng, rng.below(3)) for _ in range(rng.below(4))]
        if rng.chance(1, 30):
            args.append(("S", b"x" * 65536))
        return "Cmd %s N%016x %s %s" % (hexs(name), A.rand_num(rng), A.show(obj), A.show_all(args))
    if k == 4:
        vs = [A.rand_value(rng, rng.below(3)) for _ in range(rng.below(4))]
        return "Data " + A.show_all(vs)
    if k == 5:
        return "Audio " + hexs(rng.bytes(rng.below(40)))
    if k == 6:
        return "Video " + hexs(rng.bytes(rng.below(40)))
    if k == 7:
        return "SetChunkSize %d" % u32(rng)
    if k == 8:
        return "SetPeerBandwidth %d %s" % (u32(rng), rng.choice("HSD"))
    if k in (9, 10):
        ev = rng.choice(EVENTS)
        if ev == "SetBufferLength":
            return "UserControl %s %d %d -" % (ev, u32(rng), u32(rng))
        if ev in ("PingRequest", "PingResponse"):
            return "UserControl %s - - %d" % (ev, u32(rng))
        return "UserControl %s %d - -" % (ev, u32(rng))
    return "WinAck %d" % u32(rng)


def generate(rng, tier):
    n = 1500 if tier == "quick" else 40000
    for v in U32:
        for t in ("Abort", "Ack", "SetChunkSize", "WinAck"):
            yield "msg enc %s %d" % (t, v)
        yield "msg enc SetPeerBandwidth %d %s" % (v, "HSD"[v % 3])
        for ev in EVENTS:
            if ev == "SetBufferLength":
                yield "msg enc UserControl %s %d %d -" % (ev, v, U32[(U32.index(v) + 3) % len(U32)])
            elif ev.startswith("Ping"):
                yield "msg enc UserControl %s - - %d" % (ev, v)
            else:
                yield "msg enc UserControl %s %d - -" % (ev, v)
    for i in range(n):
        yield "msg enc " + rand_message(rng)
    # every type id with random, boundary and well-formed bodies
    bodies = [b"", b"\x00", b"\x00\x00\x00", b"\x00\x00\x00\x05", b"\x7f\xff\xff\xff", b"\x80\x00\x00\x00", b"\xff\xff\xff\xff",
              b"\x00\x00\x00\x05\x00", b"\x00\x00\x00\x05\x02", b"\x00\x00\x00\x05\x03", b"\x00\x03\x00\x00\x00\x01\x00\x00\x00\x02",
              b"\x00\x03\x00\x00\x00\x01", b"\x00\x05\x00\x00\x00\x01", b"\x00\x21\x00\x00\x00\x01", b"\x00\x06\x00\x00",
              b"\x02\x00\x01a\x00\x3f\xf0\x00\x00\x00\x00\x00\x00\x05", b"\x00\x02\x00\x01a\x00\x3f\xf0\x00\x00\x00\x00\x00\x00\x05",
              b"\x02\x00\x01a", b"\x02\x00\x01a\x00\x3f\xf0\x00\x00\x00\x00\x00\x00", b"\x05\x05\x05", b"\x00\x00"]
    for tid in range(256):
        for b in bodies if tid in KNOWN else bodies[:3]:
            yield "msg dec %d %s" % (tid, hexs(b))
        for _ in range(2 if tier == "quick" else 20):
            yield "msg dec %d %s" % (tid, hexs(rng.bytes(rng.below(16))))
    for i in range(n // 2):
        tid = rng.choice([18, 20, 15, 17, 4, 6, 1])
        vs = [A.rand_value(rng, rng.below(3), True) for _ in range(rng.range(0, 4))]
        if tid in (20, 17) and rng.chance(3, 4):
            vs = [("S", rng.choice([b"connect", b"play", b"x"])), ("N", A.rand_num(rng))] + vs
        enc = b"".join(A.ref_enc(v) for v in vs)
        if tid == 17 and rng.chance(1, 2):
            enc = b"\x00" + enc
        if tid in (4, 6, 1):
            enc = rng.bytes(rng.below(12))
        if rng.chance(1, 5) and enc:
            enc = enc[:rng.below(len(enc))]
        yield "msg dec %d %s" % (tid, hexs(enc))


def nontrivial(case):
    return len(case.split()) > 3


def distribution(lines):
    d = {}
    for l in lines:
        t = l.split()
        k = t[1] + ":" + (t[2] if t[1] == "enc" else ("known" if int(t[2]) in KNOWN else "unknown"))
        d[k] = d.get(k, 0) + 1
    return d
