"""Case generator for component `amf0` (rml_amf0 serialize / deserialize).

Contains an independent reference encoder (written from the AMF0 specification) used to build
decode-side cases together with the value they denote (`decx` cases)."""
import struct
from common import hexs

SPECIAL_NUMS = [0x0000000000000000, 0x8000000000000000, 0x3FF0000000000000, 0x7FF0000000000000, 0xFFF0000000000000,
                0x7FF8000000000000, 0x7FF0000000000001, 0xFFFFFFFFFFFFFFFF, 0x7FF8DEADBEEF0001, 0x0000000000000001,
                0x7FEFFFFFFFFFFFFF, 0x41DFFFFFFFC00000, 0x41F0000000000000, 0xC000000000000000]
UTF8_SAMPLES = [b"", b"a", b"app", b"onMetaData", "é".encode(), "€".encode(), "𝄞".encode(), "日本語".encode(),
                b"\x7f", "\u0080".encode(), "߿".encode(), "ࠀ".encode(), "퟿".encode(), "".encode(),
                "￿".encode(), "\U00010000".encode(), "\U0010ffff".encode(), b"\x00", b"a\x00b"]


# ---------------------------------------------------------------- value text syntax
def show(v, sort=False):
    k = v[0]
    if k == "N":
        return "N%016x" % v[1]
    if k == "B":
        return "T" if v[1] else "F"
    if k == "S":
        return "S" + hexs(v[1])
    if k == "Z":
        return "Z"
    if k == "U":
        return "U"
    if k == "A":
        return " ".join(["A%d" % len(v[1])] + [show(x, sort) for x in v[1]])
    if k == "O":
        items = v[1]
        if sort:
            d = {}
            for n, x in items:          # last wins
                d[n] = x
            items = sorted(d.items(), key=lambda kv: kv[0])
        return " ".join(["O%d" % len(items)] + [hexs(n) + " " + show(x, sort) for n, x in items])
    raise ValueError(k)


def show_all(vs, sort=False):
    return " ".join([str(len(vs))] + [show(v, sort) for v in vs])


# ---------------------------------------------------------------- reference encoder (spec literals)
def ref_enc(v, ecma=None, boolbyte=None):
    k = v[0]
    if k == "N":
        return b"\x00" + struct.pack(">Q", v[1])
    if k == "B":
        return b"\x01" + (b"\x01" if v[1] else b"\x00")
    if k == "S":
        return b"\x02" + struct.pack(">H", len(v[1])) + v[1]
    if k == "Z":
        return b"\x05"
    if k == "U":
        return b"\x06"
    if k == "A":
        return b"\x0a" + struct.pack(">I", len(v[1])) + b"".join(ref_enc(x) for x in v[1])
    if k == "O":
        body = b"".join(struct.pack(">H", len(n)) + n + ref_enc(x) for n, x in v[1])
        return b"\x03" + body + b"\x00\x00\x09"
    if k == "E":      # ecma array, decode-side only: ('E', count, props)
        body = b"".join(struct.pack(">H", len(n)) + n + ref_enc(x) for n, x in v[2])
        return b"\x08" + struct.pack(">I", v[1]) + body + b"\x00\x00\x09"
    if k == "Braw":   # boolean with an arbitrary byte
        return b"\x01" + bytes([v[1]])
    raise ValueError(k)


def denotes(v):
    """The value a decode-side construct denotes (ECMA array -> object, non-zero boolean -> true)."""
    k = v[0]
    if k == "E":
        return ("O", [(n, denotes(x)) for n, x in v[2]])
    if k == "Braw":
        return ("B", v[1] != 0)
    if k == "O":
        return ("O", [(n, denotes(x)) for n, x in v[1]])
    if k == "A":
        return ("A", [denotes(x) for x in v[1]])
    return v


# ---------------------------------------------------------------- random values
def rand_utf8(rng, maxlen=12):
    k = rng.below(10)
    if k < 3:
        return rng.choice(UTF8_SAMPLES)
    n = rng.below(maxlen + 1)
    out = b""
    for _ in range(n):
        c = rng.below(8)
        if c < 5:
            out += bytes([rng.range(0x20, 0x7e)])
        elif c == 5:
            out += chr(rng.range(0x80, 0x7ff)).encode()
        elif c == 6:
            cp = rng.range(0x800, 0xffff)
            if 0xd800 <= cp <= 0xdfff:
                cp = 0xe000
            out += chr(cp).encode()
        else:
            out += chr(rng.range(0x10000, 0x10ffff)).encode()
    return out


def rand_name(rng):
    s = rand_utf8(rng, 8)
    return s if s else b"k"


def rand_num(rng):
    k = rng.below(4)
    if k == 0:
        return rng.choice(SPECIAL_NUMS)
    if k == 1:
        return struct.unpack(">Q", struct.pack(">d", float(rng.range(-5, 100000))))[0]
    return rng.next()


def rand_value(rng, depth, decode_side=False):
    k = rng.below(12 if depth > 0 else 7)
    if k < 2:
        return ("N", rand_num(rng))
    if k == 2:
        if decode_side and rng.chance(1, 2):
            return ("Braw", rng.below(256))
        return ("B", rng.chance(1, 2))
    if k < 5:
        return ("S", rand_utf8(rng))
    if k == 5:
        return ("Z",)
    if k == 6:
        return ("U",)
    if k < 10:
        n = rng.below(5)
        props = []
        seen = set()
        for _ in range(n):
            nm = rand_name(rng)
            if nm in seen and not decode_side:
                continue
            if decode_side and seen and rng.chance(1, 6):
                nm = rng.choice(sorted(seen))        # duplicate name: last one wins
            seen.add(nm)
            props.append((nm, rand_value(rng, depth - 1, decode_side)))
        if decode_side and rng.chance(1, 3):
            cnt = rng.choice([0, len(props), 1, 0xFFFFFFFF, rng.below(1 << 32)])
            return ("E", cnt, props)
        return ("O", props)
    return ("A", [rand_value(rng, depth - 1, decode_side) for _ in range(rng.below(5))])


def boundary_strings(rng):
    """strings around the u16 limit, in bytes and in characters"""
    out = []
    for n in (65534, 65535, 65536, 65537, 70000):
        out.append(b"a" * n)
    for cp, per in (("é", 2), ("€", 3), ("𝄞", 4)):
        e = cp.encode()
        for nbytes in (65535, 65536, 65538):
            k = nbytes // per
            out.append(e * k + b"x" * (nbytes - k * per))
        out.append(e * 40000)           # > 65535 bytes, <= 65535 characters
        out.append(e * 65535)           # 65535 characters
    return out


def generate(rng, tier):
    n_enc = 1500 if tier == "quick" else 40000
    n_dec = 1200 if tier == "quick" else 30000
    # --- encoder side ---
    yield "amf0 enc 0"
    for bits in SPECIAL_NUMS:
        yield "amf0 enc 1 N%016x" % bits
    for s in UTF8_SAMPLES:
        yield "amf0 enc 1 S%s" % hexs(s)
        yield "amf0 enc 1 O1 %s Z" % hexs(s)          # includes the empty property name
    big = boundary_strings(rng)
    picks = big if tier == "thorough" else [big[i] for i in (1, 2, 4, 6, 8, 9, 10, 12, 16)]
    for i, s in enumerate(picks):
        yield "amf0 enc 1 S%s" % hexs(s)
        yield "amf0 enc 2 T O2 61 N%016x %s A1 S%s" % (rng.next(), hexs(s), hexs(b"tail"))
    yield "amf0 enc 1 O2 %s Z - T" % hexs(b"a" * 65536)      # two different refusals in one object
    # --- element / property counts around powers of two and decimal round numbers (a decoder that caps or truncates a count) ---
    for n in (255, 256, 257, 1000, 1023, 1024, 1025, 3000, 4096, 4097) + ((65535, 65536, 65537) if tier == "thorough" else ()):   # the model needs ~1 min for each 2^16 case
        yield "amf0 enc " + show_all([("A", [("Z",)] * n), ("Z",)])
        if n <= 4097:
            yield "amf0 enc " + show_all([("O", [(b"k", ("A", [("N", rng.next())] * n)), (b"t", ("S", b"tail"))]), ("B", True)])
            yield "amf0 enc " + show_all([("O", [(("p%d" % j).encode(), ("B", j % 2 == 0)) for j in range(n)])])
    # names that differ only by letter case (ASCII and non-ASCII) are different names
    for names in ((b"Width", b"width"), (b"width", b"WIDTH", b"Width"), ("\u00e9t\u00e9".encode(), "\u00c9T\u00c9".encode()), (b"a", b"A", b"b")):
        yield "amf0 enc " + show_all([("O", [(nm, ("N", rng.next())) for nm in names]), ("A", [("O", [(nm, ("B", True)) for nm in names])])])
    # many containers side by side (not nested): a decoder that counts open containers must count them closed again
    for n in (33, 40, 100, 300):
        yield "amf0 enc " + show_all([("A", [("N", rng.next())])] * n + [("S", b"tail")])
        yield "amf0 enc " + show_all([("A", [("A", [])] * n), ("O", [(("a%d" % j).encode(), ("A", [("B", True)])) for j in range(n)])])
        yield "amf0 enc " + show_all([("O", [(b"k", ("Z",))])] * n + [("A", [("O", [(b"x", ("A", []))])] * n)])
    for i in range(n_enc):
        vs = [rand_value(rng, rng.below(5)) for _ in range(rng.range(0, 4))]
        if rng.chance(1, 40):      # sprinkle an inexpressible name / string deep inside
            vs.append(("A", [("O", [(b"", ("Z",))])]))
        yield "amf0 enc " + show_all(vs)
    # --- decoder side: reference encodings with the value they denote ---
    for b in range(256):
        yield "amf0 decx 01%02x Ok 1 %s" % (b, "T" if b else "F")
    for i in range(n_dec):
        vs = [rand_value(rng, rng.below(4), True) for _ in range(rng.range(1, 3))]
        enc = b"".join(ref_enc(v) for v in vs)
        yield "amf0 decx %s Ok %s" % (hexs(enc), show_all([denotes(v) for v in vs], True))
    # --- conformant nesting of every container kind (the format puts no bound on depth; recursion of the Python reference encoder
    #     limits these to a few hundred levels, the deep/deepx cases go further with strict arrays only) ---
    for depth in (8, 9, 10, 16, 17, 18, 32, 33, 64, 65, 128, 200):
        for kind in ("A", "O", "E", "mix"):
            v = ("S", b"core")
            for lvl in range(depth):
                kk = kind if kind != "mix" else ("A", "O", "E")[(lvl + depth) % 3]
                v = ("A", [v]) if kk == "A" else (("O", [(b"p", v)]) if kk == "O" else ("E", rng.choice([0, 1, 7]), [(b"e", v)]))
            yield "amf0 decx %s Ok %s" % (hexs(ref_enc(v) + b"\x05"), show_all([denotes(v), ("Z",)], True))
    # --- all 256 markers at a value position (top level, in an array, as a property value) ---
    for m in range(256):
        tail = rng.bytes(rng.below(12))
        yield "amf0 dec %02x%s" % (m, tail.hex())
        yield "amf0 dec 0a00000002%02x%s" % (m, tail.hex())
        yield "amf0 dec 0300016b%02x%s" % (m, tail.hex())
    # --- every truncation point of short encodings ---
    n_tr = 60 if tier == "quick" else 1500
    for i in range(n_tr):
        vs = [rand_value(rng, rng.below(4)) for _ in range(rng.range(1, 3))]
        enc = b"".join(ref_enc(v) for v in vs)
        if len(enc) > 120:
            continue
        for k in range(len(enc)):
            yield "amf0 dect %d %s %s" % (k, hexs(enc), show_all(vs, True))
    # --- property names that read as (large) array indices, in ECMA arrays and objects: names are names, never sizes ---
    for key in (b"0", b"7", b"65535", b"2000000", b"99999999", b"4294967294", b"4294967295", b"18446744073709551615", b"1e9", b"-1"):
        for cnt in (0, 1, 0x00200000, 0xFFFFFFFF):
            c4 = struct.pack(">I", cnt).hex()
            k = struct.pack(">H", len(key)).hex() + key.hex()
            yield "amf0 decm 08%s%s05000009" % (c4, k)
            yield "amf0 decm 08%s0001300101%s000000000000000000000009" % (c4, k)
        yield "amf0 decm 03%s05000009" % (struct.pack(">H", len(key)).hex() + key.hex())
    # --- declared lengths / counts far larger than the data present (memory must follow the input, not the claim) ---
    for cnt in (0, 1, 2, 1000, 1000000, 0x7FFFFFFF, 0xFFFFFFFF):
        c4 = struct.pack(">I", cnt).hex()
        for tail in ("", "05", "0505", "0a%s05" % c4, "0101"):
            yield "amf0 decm 0a%s%s" % (c4, tail)
            yield "amf0 decm 08%s00016105%s" % (c4, "000009" if tail else "")
            yield "amf0 decm 0300016b0a%s%s" % (c4, tail)
    # every marker byte followed by a huge 32-bit / 16-bit length claim, at top level, in an array and as a property value
    for m in range(256):
        for claim in ("ffffffff", "7fffffff", "01000000", "ffff"):
            yield "amf0 decm %02x%s" % (m, claim)
            yield "amf0 decm %02x%s6161" % (m, claim)
        yield "amf0 decm 0a00000001%02xffffffff" % m
        yield "amf0 decm 0300016b%02xffffffff" % m
    # a large value followed by very many 3-byte units "marker 00 00" for the markers this decoder does not implement (reference,
    # date, long string, ...): whatever a decoder makes of them, it must not multiply the large value
    big = "0300016102ffff" + "78" * 65535 + "000009"
    for m in (0x07, 0x0b, 0x0c, 0x0d, 0x0e, 0x0f, 0x10, 0x11):
        yield "amf0 decm %s0a000003e8%s" % (big, ("%02x0000" % m) * 1000)
    # very many tiny values: memory per value must stay a small constant (64 KiB of input each)
    for unit in ("03000009", "0800000000000009", "0a00000000", "020000", "0300016b05000009", "05", "0100"):
        yield "amf0 decm " + unit * ((65536 if tier == "thorough" else 16384) // (len(unit) // 2))
    yield "amf0 decm 0a00001000" + "03000009" * 4096
    for ln in (0, 1, 2, 65535):
        yield "amf0 decm 02%04x" % ln + "61" * min(ln, 3)
        yield "amf0 decm 03%04x" % ln + "61" * min(ln, 3)
    for i in range(40 if tier == "quick" else 2000):
        vs = [rand_value(rng, rng.below(4), True) for _ in range(rng.range(1, 3))]
        enc = bytearray(b"".join(ref_enc(v) for v in vs))
        # blow up one count / length field
        for j in range(len(enc)):
            if enc[j] in (0x0a, 0x08) and j + 4 < len(enc) and rng.chance(1, 2):
                enc[j + 1:j + 5] = struct.pack(">I", rng.choice([0xFFFFFFFF, 1000000, 0x80000000]))
                break
        yield "amf0 decm " + hexs(bytes(enc))
    # --- long FLAT runs of one byte at a value position (top level, array element, property value): constant stack ---
    # (0x03, 0x08 and 0x0a open a container, so a run of them is nesting, not a flat input: that is the deep/deepx class)
    for byte in ("09", "05", "06", "00", "01", "02", "0b", "0c", "ff"):
        for prefix in ("-", "0a7fffffff", "0300016b"):
            yield "amf0 flat %s %s %d 2048" % (prefix, byte, 1000000 if tier == "thorough" else 300000)
    # --- nesting depth: decoded in a child process on a 2 MiB stack (deepx = the class of known finding K1) ---
    for d in (1, 10, 100, 1000, 3000):
        yield "amf0 deep %d 2048" % d
    yield "amf0 deepx 20000 2048"
    if tier == "thorough":
        yield "amf0 deepx 3355443 8192"          # 16 MiB of nested headers on an 8 MiB stack
    # --- malformed stream: random bytes and mutated valid encodings ---
    n_bad = 800 if tier == "quick" else 30000
    for i in range(n_bad):
        if rng.chance(1, 3):
            yield "amf0 dec " + hexs(rng.bytes(rng.below(24)))
        else:
            vs = [rand_value(rng, rng.below(4), True) for _ in range(rng.range(1, 3))]
            enc = bytearray(b"".join(ref_enc(v) for v in vs))
            for _ in range(rng.range(1, 3)):
                if enc:
                    enc[rng.below(len(enc))] = rng.below(256) if rng.chance(1, 2) else rng.choice([0, 1, 2, 3, 8, 9, 10, 255])
            yield "amf0 dec " + hexs(bytes(enc[:100000]))


def nontrivial(case):
    t = case.split()
    if t[1] == "enc":
        return len(t) > 4
    return len(t[2]) > 4 if t[1] in ("dec", "decx", "decm") else True


def distribution(lines):
    d = {"enc": 0, "decx": 0, "dec": 0, "dect": 0, "decm": 0, "deep": 0, "deepx": 0, "with_object": 0, "with_array": 0, "huge_string": 0,
         "nan_or_special_number": 0, "empty_name": 0}
    for l in lines:
        t = l.split()
        d[t[1]] = d.get(t[1], 0) + 1
        if t[1] == "enc":
            if any(x.startswith("O") for x in t[3:]):
                d["with_object"] += 1
            if any(x.startswith("A") for x in t[3:]):
                d["with_array"] += 1
            if len(l) > 120000:
                d["huge_string"] += 1
            if any(x.startswith("N7ff") or x.startswith("Nfff") or x == "N8000000000000000" for x in t[3:]):
                d["nan_or_special_number"] += 1
            if " - " in l:
                d["empty_name"] += 1
    return d
