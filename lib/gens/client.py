"""Case generator for component `client` (ClientSession): application calls interleaved with server bytes
built by the Python peer emulator."""
import struct
from common import hexs
from gens.rtmpenc import ChunkWriter, S, Num, Obj, NULL, amf, command
from gens.chunk import rand_part
from gens.server import CLOCKS, KEYS, APPS, md_text, odd_value


class Script:
    def __init__(self, rng, clean):
        self.rng = rng
        self.clean = clean
        self.w = ChunkWriter(rng)
        self.ops = []
        self.clock = rng.choice(CLOCKS) if rng.chance(1, 3) else rng.below(5000)
        self.tr = 1           # guess of the next transaction id
        self.stream = None
        self.pending = b""

    def tick(self):
        r = self.rng
        if r.chance(1, 12):
            self.clock = r.choice(CLOCKS)
        else:
            self.clock += r.range(0, 40)
        return self.clock

    def flush(self):
        if self.pending:
            self.ops.append("in %d %s %s" % (self.tick(), rand_part(self.rng, len(self.pending)), hexs(self.pending)))
            self.pending = b""

    def peer(self, tid, sid, payload, ts=None, sep=True):
        ts = self.rng.below(1 << 32) if ts is None else ts
        self.pending += self.w.message(tid, sid, ts, payload)
        if sep or self.rng.chance(1, 2):
            self.flush()

    def app(self, text):
        self.flush()
        self.ops.append(text)

    # application calls
    def connect(self):
        self.app("connect %d %s" % (self.tick(), hexs(self.rng.choice(APPS))))
        self.tr += 1

    def play(self):
        self.app("play %d %s" % (self.tick(), hexs(self.rng.choice(KEYS))))
        self.tr += 1

    def publish(self):
        self.app("publish %d %s %s" % (self.tick(), hexs(self.rng.choice(KEYS)), self.rng.choice(["live", "record", "append"])))
        self.tr += 1

    def misc_call(self):
        r = self.rng
        k = r.below(7)
        if k == 0:
            self.app("stopplay %d" % self.tick())
        elif k == 1:
            self.app("stoppub %d" % self.tick())
        elif k == 2:
            self.app("ping %d" % self.tick())
        elif k == 3:
            self.app("meta %d %s" % (self.tick(), md_text(r)))
        else:
            n = r.choice([0, 1, 10, 128, 129, 300, 5000])
            self.app("%s %d %d r%d.%d" % (r.choice(["video", "audio"]), r.choice([0, 5, 0xFFFFFF, 0xFFFFFFFF, r.below(1 << 32)]), r.below(2), n, r.below(1 << 20)))

    # server messages
    def result(self, tr=None, args=None, name="_result"):
        r = self.rng
        tr = (self.tr - 1 if (self.clean or r.chance(4, 5)) else r.choice([0, 1, 2, 3, 9, 1.5, -1, 4294967296.0, float("nan")])) if tr is None else tr
        if args is None:
            args = [Obj([("level", S("status")), ("code", S("NetConnection.Connect.Success")), ("description", S("ok"))])]
        self.peer(20, 0, command(name, tr, r.choice([NULL, Obj([("fmsVer", S("FMS/3"))])]), args))

    def create_result(self):
        r = self.rng
        sid = r.choice([1, 1, 2, 5, 4294967295])
        k = r.below(10) if not self.clean else 0
        if k < 7:
            args = [Num(sid)]
            self.stream = sid
        elif k == 7:
            args = []
        elif k == 8:
            args = [S("x")]
        else:
            args = [Num(sid + 0.7)]
            self.stream = sid
        self.result(args=args, name="_result" if (self.clean or r.chance(7, 8)) else "_error")

    def status(self, code=None):
        r = self.rng
        code = code or r.choice(["NetStream.Play.Start", "NetStream.Publish.Start", "NetStream.Play.Reset", "NetStream.Data.Start", "x"])
        k = r.below(8) if not self.clean else 0
        if k < 6:
            args = [Obj([("level", S("status")), ("code", S(code)), ("description", S("d"))])]
        elif k == 6:
            args = []
        else:
            args = [r.choice([S("x"), Obj([("level", S("status"))]), Obj([("code", Num(1))])])]
        self.peer(20, self.stream if self.stream is not None else 1, command("onStatus", 0, NULL, args))

    def media(self):
        r = self.rng
        sid = self.stream if (self.stream is not None and (self.clean or r.chance(4, 5))) else r.choice([0, 1, 2, 7])
        k = r.below(3)
        if k < 2:
            self.peer(r.choice([8, 9]), sid, r.bytes(r.choice([0, 1, 100, 128, 129, 600])), ts=r.choice([None, 0, 0xFFFFFF, 0xFFFFFFFF]), sep=False)
        else:
            props = Obj([("width", Num(1280)), ("height", Num(720.9)), ("framerate", Num(r.choice([30, 29.97, 1e300]))), ("stereo", ("B", False)),
                         ("encoder", S("x")), ("audiochannels", Num(-1))][:r.range(0, 6)])
            if not self.clean and r.chance(1, 3):
                props = Obj([(k, odd_value(r) if r.chance(1, 2) else v) for k, v in props[1]] +
                            [(r.choice(["videocodecid", "audiocodecid"]), odd_value(r))])
            vals = r.choice([[S("onMetaData"), props], [S("onMetaData")], [S("onMetaData"), S("no")], [S("other"), props], [], [Num(1)]])
            if self.clean:
                vals = [S("onMetaData"), props]
            self.peer(18, sid, amf(vals), sep=False)

    def control(self):
        r = self.rng
        k = r.below(9)
        if k == 0:
            self.peer(4, 0, struct.pack(">HI", 6, r.below(1 << 32)))
        elif k == 1:
            self.peer(4, 0, struct.pack(">HI", 7, r.below(1 << 32)))
        elif k == 2:
            self.peer(3, 0, struct.pack(">I", r.below(1 << 32)))
        elif k == 3:
            self.peer(5, 0, struct.pack(">I", r.choice([1, 2, 3, 10, 50, 100, 1000, 0xFFFFFFFF, 0])))
        elif k == 4:
            old_cs = self.w.cs
            self.pending += self.w.set_chunk_size(r.choice([1, 2, 64, 128, 200, 4096, 65536]))
            if old_cs > 4096 or r.chance(1, 2):          # (the model needs minutes for input calls of hundreds of KB)
                self.flush()
            else:
                # the announcement and a message longer than the OLD chunk size in the same input call: the new size must already be
                # in force when the next message is read
                self.peer(r.choice([22, 255, 19]), 0, r.bytes(old_cs + r.range(1, 300)), sep=True)
        elif k == 5:
            self.peer(20, 0, command(r.choice(["onBWDone", "_checkbw", ""]), 0, NULL, [Num(8192)]))
        elif k == 6:
            self.peer(r.choice([2, 6, 7, 22, 0, 255]), 0, r.bytes(r.below(8)) + b"\x00\x00\x00\x00\x00")
        elif k == 7:
            self.peer(4, 0, struct.pack(">HI", 0, 1))
        else:
            self.peer(6, 0, struct.pack(">IB", 2500000, 2))


def gen_script(rng):
    clean = rng.chance(1, 2)
    s = Script(rng, clean)
    r = rng
    chunk = r.choice([4096, 128, 1, 2, 3, 5, 64, 65536, 0x7FFFFFFF] + ([] if clean else [0, 0x80000000])) if r.chance(1, 3) else 4096
    tc = "-" if r.chance(1, 2) else "u" + hexs(b"rtmp://host/app")
    s.ops.append("cfg %s %d %d %d %s" % (hexs(r.choice([b"WIN 23,0,0,207", b"", "ü".encode()])), r.choice([2000, 0, 0xFFFFFFFF]), r.choice([2500000, 1, 0]), chunk, tc))
    if clean or r.chance(2, 3):
        if r.chance(1, 5):
            s.control()
        s.connect()
        if clean or r.chance(5, 6):
            s.result()
        else:
            s.result(name="_error", args=r.choice([[], [Obj([("description", S("nope"))])], [S("x")], [Obj([("description", Num(1))])]]))
        for _ in range(r.range(0, 2)):
            s.control()
        if r.chance(1, 2):
            s.play()
            s.create_result()
            for _ in range(r.range(0, 3)):
                s.media()
            s.status("NetStream.Play.Start" if (clean or r.chance(3, 4)) else None)
            for _ in range(r.range(0, 8)):
                s.media() if r.chance(3, 4) else s.control()
            s.flush()
            if r.chance(2, 3):
                s.app("stopplay %d" % s.tick())
                if r.chance(1, 2):
                    s.media()
                if r.chance(1, 3):
                    s.play()
                    s.create_result()
        else:
            s.publish()
            s.create_result()
            if not clean and r.chance(1, 3):
                s.media()            # audio / video / metadata from the server on the stream the client is about to publish on: never raised
            s.status("NetStream.Publish.Start" if (clean or r.chance(3, 4)) else None)
            for _ in range(r.range(0, 8)):
                if not clean and r.chance(1, 6):
                    s.media()
                else:
                    s.misc_call() if r.chance(3, 4) else s.control()
            if r.chance(2, 3):
                s.app("stoppub %d" % s.tick())
                if r.chance(1, 2):
                    s.misc_call()
    else:
        for _ in range(r.range(3, 14)):
            k = r.below(12)
            [s.connect, s.play, s.publish, s.misc_call, s.misc_call, s.result, s.create_result, s.status, s.media, s.control, s.media, s.result][k]()
    s.flush()
    return "client " + " | ".join(s.ops)


def ack_script(rng):
    s = Script(rng, True)
    s.ops.append("cfg 76 2000 2500000 4096 -")
    w = rng.choice([1, 2, 3, 4, 5, 6, 7, 8, 16, 100])
    # one script in four announces w plus a high part (bits 8..31): every bit of the 32-bit window counts, so the session
    # stays silent where a decoder that drops or masks bits would acknowledge every w bytes
    hi = rng.choice([1 << 31, 1 << 30, 3 << 30, 1 << 24, 1 << 16, 1 << 8, 0x80808000]) if rng.chance(1, 4) else 0
    s.peer(5, 0, struct.pack(">I", hi + w))
    for _ in range(rng.range(3, 12)):
        data = b""
        for _ in range(rng.range(1, 6)):
            data += s.w.message(rng.choice([3, 4]), 0, rng.below(1000), struct.pack(">HI", 7, 5) if rng.chance(1, 2) else struct.pack(">I", rng.below(1 << 32)))
        s.ops.append("in %d k%d %s" % (s.tick(), rng.range(1, w + 2), hexs(data)))
        if rng.chance(1, 5):
            w = rng.choice([1, 2, 3, 5, 8, 13, 50])
            s.peer(5, 0, struct.pack(">I", hi + w))
        if rng.chance(1, 6):
            # a Set Peer Bandwidth (any limit type, often smaller than the window) limits OUR output; it says nothing about the window
            s.peer(6, 0, struct.pack(">IB", rng.choice([0, 1, 2, max(1, w // 2), w, 1000]), rng.choice([0, 1, 2])))
    return "client " + " | ".join(s.ops)


def big_call_script(rng):
    """one input call larger than 2^16 bytes under a window the call crosses: the count is the call's size, whatever its size"""
    s = Script(rng, True)
    s.ops.append("cfg 76 2000 2500000 4096 -")
    w = rng.choice([70000, 100000, 131072, 200000])
    s.peer(5, 0, struct.pack(">I", w))
    s.pending += s.w.set_chunk_size(65536)
    s.flush()
    data = b""
    for _ in range(rng.range(1, 3)):
        data += s.w.message(rng.choice([22, 255]), 0, rng.below(1000), rng.bytes(rng.choice([66000, 70000, 100000])))
    s.ops.append("in %d %s %s" % (s.tick(), rng.choice(["w", "k65535", "k65536", "k70000"]), hexs(data)))
    s.peer(4, 0, struct.pack(">HI", 7, 5))
    return "client " + " | ".join(s.ops)


def fuzz_script(rng, tier):
    """network input no well-behaved peer sends: a generated script whose peer bytes are mutated, truncated or random"""
    from gens.chunk import mutate
    base = gen_script(rng, tier) if False else gen_script(rng)
    ops = base.split(" | ")
    out = []
    for op in ops:
        t = op.split()
        if t[0] == "in" and rng.chance(1, 2):
            data = bytes.fromhex(t[3]) if t[3] != "-" else b""
            k = rng.below(4)
            if k == 0:
                data = rng.bytes(rng.range(1, 60))
            else:
                for _ in range(rng.range(1, 3)):
                    data = mutate(rng, data)
            out.append("in %s %s %s" % (t[1], t[2], hexs(data)))
        else:
            out.append(op)
    return " | ".join(out)


def generate(rng, tier):
    n = 700 if tier == "quick" else 25000
    for _ in range(n // 3):
        yield fuzz_script(rng, tier)
    for _ in range(n):
        yield gen_script(rng)
    for _ in range(n // 4):
        yield ack_script(rng)
    for _ in range(3 if tier == "quick" else 40):
        yield big_call_script(rng)


def nontrivial(case):
    return case.count("|") >= 3


def distribution(lines):
    d = {"scripts": len(lines), "ops": 0}
    for l in lines:
        for op in l.split(" | "):
            t = op.split()
            k = t[0] if t[0] != "client" else t[1]
            d["ops"] += 1
            d[k] = d.get(k, 0) + 1
    return d
