"""Registry: which proof file, model components and oracles decide each property."""

# components: correspondence components (model vs impl) in the dependency closure of the property's theorems
# oracle_prefix: oracle names (evaluated on the REAL observations) that state this property
AMF0_RULE = ("amf0: size-biased random value trees (numbers incl. NaN payloads/-0/inf, strings incl. multi-byte UTF-8, "
             "boundary lengths 65534..70000 in bytes and characters, empty/long property names), reference encodings with "
             "ECMA arrays / duplicate names / all 256 boolean bytes (decx), all 256 markers at 3 value positions, every "
             "truncation point of short encodings (dect), random and mutated byte strings; non-trivial = more than one token of value")

CHUNK_RULE = ("chunk: library op sequences (messages biased to repeat type/stream/length so formats 0-3 all occur, timestamps boundary/"
              "constant-step/decreasing/wrapping/extended, payloads around multiples of the chunk size incl. 0, force/droppable flags, "
              "chunk-size changes incl. refused values) through the real serializer (ser), real serializer -> drop mask -> real deserializer "
              "under whole/byte-wise/fixed/random partitions (rt, exhaustive masks for <= 6 droppable packets), foreign streams from an "
              "independent Python spec encoder with 1/2/3-byte csids, all legal format choices, interleaving (fde / ide), mutated/random streams (de); "
              "non-trivial = at least two tokens after the op")

HS_RULE = ("hs: one Handshake object per case (role, pinned random source via hook H1) fed the bytes of a peer played by an independent Python reference "
           "(hashlib HMAC): library-style peers, peers using digest scheme 1 or 2 at chosen offsets (quick: boundary + random offsets, thorough: all 728 x 2 x both roles, "
           "own offsets likewise by pinning the pointer bytes), digest-less original-handshake peers echoing our packet 1; whole / byte-wise / fixed / random fragmentation, "
           "trailing application bytes with or after packet 2, client start first or reactive; malformed version bytes; non-trivial = contains an input op")

PROPS = {
    "C01": {"components": ["chunk"], "rule": CHUNK_RULE,
            "explanation": "oracles C01.roundtrip / C01.packet_nonempty / C01.no_empty_packet on the real serializer+deserializer"},
    "C02": {"components": ["interop"],
            "rule": "interop: a real ClientSession and a real ServerSession wired back to back (server application accepts every request); canonical scenarios "
                    "(connect; publish or play; 0..10 metadata/audio/video items with payloads 0, 1, chunk size +-1, 64 KiB+ and u32 timestamps rising/falling/wrapping/"
                    "crossing 0xFFFFFF; partial deliveries in between; stop) under chunk sizes 1..2^31-1 and window sizes 1..2^32-1 on both sides and flush schedules "
                    "byte-wise / fixed / mixed sizes alternating directions, plus free operation soups; non-trivial = at least four operations",
            "explanation": "oracles C02.* on the real events: connect/publish/play complete on both sides, every item raised exactly once in order with identical length, "
                           "hash, timestamp, application name and stream key, finished event after stop, no error, scenario quiesces"},
    "C05": {"components": ["hs"], "rule": HS_RULE,
            "explanation": "oracles vs the Python reference: emitted bytes = version + own packet 1 + own packet 2, no error, completion only after 3073 peer bytes, trailing bytes handed back exactly once in order"},
    "C11": {"components": ["hs"], "rule": HS_RULE,
            "explanation": "oracle C11.packets_match_reference_digest_and_signature: the real packets equal the packets of the independent hashlib reference (digest position, digest, response signature or exact echo)"},
    "C06": {"components": ["chunk"], "rule": CHUNK_RULE,
            "explanation": "oracle C06.foreign_stream: real deserializer on streams of the independent spec encoder = the encoded messages"},
    "C07": {"components": ["chunk"], "rule": CHUNK_RULE,
            "explanation": "oracle C07.spec_decoder_reads_serializer_output: extracted independent spec decoder on the real serializer's bytes"},
    "C08": {"components": ["chunk"], "rule": CHUNK_RULE,
            "explanation": "oracle C08.drop_roundtrip: real serializer output minus any subset of droppable packets decodes to the kept messages"},
    "C09": {"components": ["server"],
            "rule": "server: operation scripts = peer chunk streams from an independent Python emulator (connect/createStream/publish/play/close/delete/media/"
                    "@setDataFrame/ping/control/unknown/malformed, random partitions) interleaved with application calls (accept/reject valid, stale, unknown ids; "
                    "send media/metadata; ping; finish), half of them clean canonical workflows, clock readings incl. 2^24 and 2^32 crossings; non-trivial = at least three operations",
            "explanation": "trace oracles on the real events: request ids fresh, publish/play requests only after an accepted connection, accept/reject exactly once, finished events <= accepted requests per key, media only for an accepted publish key"},
    "C10": {"components": ["client"],
            "rule": "client: operation scripts = application calls (request_connection/playback/publishing, stop_*, publish_*, ping) interleaved with server chunk streams "
                    "from an independent Python emulator (_result/_error with current, stale, fractional, NaN or unknown transaction ids, with/without stream id; onStatus with "
                    "known/unknown/malformed codes; media and onMetaData on the active or another stream; ping; acknowledgement; control), half clean canonical workflows; "
                    "non-trivial = at least three operations",
            "explanation": "trace oracles on the real results: connect emits only when disconnected, media events only between a play request and stop, a refused answer keeps the session idle (C10.refused_answer_keeps_the_session_idle), publish_* emit only while publishing"},
    "C13": {"components": ["msg"],
            "rule": "msg: every message variant with boundary u32 field values, random AMF0 argument lists (incl. inexpressible ones), all 9 user-control events; "
                    "all 256 type ids with boundary, well-formed and random bodies, AMF0 bodies (incl. ECMA arrays, truncations) under ids 18/20/15/17; "
                    "non-trivial = at least three tokens",
            "explanation": "oracles: C13.layout_is_spec (real bytes = extracted spec layout), C13.roundtrip (real decode(real encode m) = m), unknown_passthrough, amf3 aliases, chunk_size_bound"},
    "C17": {"components": ["server", "client"],
            "rule": "sessions: operation scripts (see C09/C10) plus acknowledgement scripts: windows 1..100 announced and re-announced mid-stream, "
                    "bursts of small messages delivered in fixed pieces of 1..W+1 bytes; non-trivial = at least three operations",
            "explanation": "oracle C17.ack_exactly_when_due: from call sizes and the calls where the peer's window announcements complete (spec decoder), recompute in which calls an Acknowledgement is due and its value; compare with the real packets"},
    "C18": {"components": ["server", "client", "chunk"],
            "rule": "sessions: the operation scripts of C09/C10/C17 with clock readings around 2^24 and 2^32 ms and media calls with droppable flags; chunk: serializer op sequences; "
                    "non-trivial = at least three operations",
            "explanation": "oracles on the real packets: C18.decodable (independent spec decoder, one well-formed message per packet), with all / alternate droppable packets removed, droppable only when asked, "
                           "messages stamped with the call's clock / caller's timestamp and stream (C18.messages_carry_expected_timestamp_and_stream); histories with a failed call = known finding K2"},
    "C14": {"components": ["amf0"], "rule": AMF0_RULE + "; decm: counts/lengths far above the data present under a counting allocator; deep/deepx: nesting decoded in a child process on a 2 MiB stack",
            "explanation": "oracles: C14.alloc_bounded (peak live bytes and largest single request of the real decoder <= 256*len + 128 KiB), C14.deep_nesting_no_abort (depths 1..3000 must decode; depth 20000 = known finding K1), C14.decode_terminates (a case on which the decoder does not return within the watchdog limit)"},
    "C19": {"components": ["chunk", "amf0", "server", "client", "interop"],
            "rule": CHUNK_RULE + " -- chunk sizes 0, 1..5, 2^24-1, 2^24, 2^24+1, multiples of 2^24, 2^31-1, 2^31, 2^32-1; payloads 16777215/16777216 (thorough); "
                    "AMF0 strings/names 65534..70000 bytes and characters, empty names; session configs with chunk sizes 0, 1, 2, 3, 5, 2^31-1, 2^31",
            "explanation": "oracles: C19.refused_or_honoured (real serializer refuses exactly 0 / > 2^31-1 / > 16777215 bytes), C19.amf0_refused, C19.accepted_chunk_size_yields_working_codec (real round trip after every accepted Set Chunk Size), C19.accepted_config_yields_working_session (real client against real server under every accepted pair of configurations), C19.session_of_accepted_config_is_decodable, C19.client_config_chunk_refused (a client configured with chunk size 0 or above 2^31-1 never reports an accepted connection); hangs and allocation blow-ups are observations of the harness watchdog (20 s per case) and allocation cap"},
    "C03": {"components": ["amf0", "msg", "chunk", "hs", "server", "client", "interop"],
            "rule": "all entry points: AMF0 decoder (reference encodings, all markers, truncations, mutated/random bytes, adversarial counts), message decoder (all 256 type ids x boundary/"
                    "well-formed/random bodies), chunk deserializer (library, foreign, mutated, random streams under partitions), handshake (malformed version bytes), server and client "
                    "sessions (scripts, mutated/truncated/random peer bytes in every reachable workflow state); non-trivial = per component rule",
            "explanation": "oracles: C03.never_panics / C03.never_hangs (harness catch_unwind with overflow-checks on, 20 s watchdog), C03.alloc_bounded (peak live bytes and largest request per case <= 16x case bytes + 20 MiB), "
                           "C03.deep_nesting_no_abort (bounded nesting)"},
    "C15": {"components": ["pair", "chunk"],
            "rule": "pair: the same chunk stream (library, foreign incl. interleaved, mutated) or session script (server/client, clean/noisy/fuzzed, without window announcements) run under two different "
                    "partitions (whole, byte-wise, fixed 2..1000, random); non-trivial = longer than 40 characters",
            "explanation": "oracles C15.deserializer_partition_independent (same message sequence and same error) and C15.session_partition_independent (same results per operation modulo AMF0 object order; on an error both fail at the same operation with prefix-comparable deliveries)"},
    "C16": {"components": ["chunk"], "rule": CHUNK_RULE,
            "explanation": "oracle C16.interleaved_streams: real deserializer on streams of the independent encoder with messages of distinct chunk streams interleaved chunk by chunk (op ide) = each message intact, in completion order"},
    "C04": {"components": ["amf0"], "rule": AMF0_RULE,
            "explanation": "oracle C04.roundtrip: the real decoder applied to the real encoder's bytes returns the canonical input, consuming all bytes; C04.error_only_when_inexpressible"},
    "C12": {"components": ["amf0"], "rule": AMF0_RULE,
            "explanation": "oracles: C12.encode_is_spec (real bytes = extracted reference encoder on the iteration order the real code used), C12.decode_reference (decx: independent Python reference encoder + denoted value), C12.truncation_prefix (dect)"},
    "C20": {
        "components": ["time"],
        "rule": "time: boundary pairs (a, a+d) for d around 0, 2^31, 2^32 plus random u32 pairs; "
                "non-trivial = operands differ and second operand non-zero",
    },
}
