"""Registry: which proof file, model components and oracles decide each property."""

# components: correspondence components (model vs impl) in the dependency closure of the property's theorems
# oracle_prefix: oracle names (evaluated on the REAL observations) that state this property
AMF0_RULE = ("amf0: size-biased random value trees (numbers incl. NaN payloads/-0/inf, strings incl. multi-byte UTF-8, "
             "boundary lengths 65534..70000 in bytes and characters, empty/long property names), reference encodings with "
             "ECMA arrays / duplicate names / all 256 boolean bytes (decx), all 256 markers at 3 value positions, every "
             "truncation point of short encodings (dect), random and mutated byte strings; non-trivial = more than one token of value")

PROPS = {
    "C04": {"components": ["amf0"], "rule": AMF0_RULE,
            "explanation": "oracle C04.roundtrip: the real decoder applied to the real encoder's bytes returns the canonical input, consuming all bytes; C04.error_only_when_inexpressible"},
    "C12": {"components": ["amf0"], "rule": AMF0_RULE,
            "explanation": "oracles: C12.encode_is_spec (real bytes = extracted reference encoder on the iteration order the real code used), C12.decode_reference (decx: independent Python reference encoder + denoted value), C12.truncation_prefix (dect)"},
    "C20": {
        "components": ["time"],
        "rule": "time: boundary pairs (a, a+d) for d around 0, 2^31, 2^32 plus random u32 pairs; "
                "non-trivial = operands differ and second operand non-zero",
    },
}
