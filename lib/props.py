"""Registry: which proof file, model components and oracles decide each property."""

# components: correspondence components (model vs impl) in the dependency closure of the property's theorems
# oracle_prefix: oracle names (evaluated on the REAL observations) that state this property
PROPS = {
    "C20": {
        "components": ["time"],
        "rule": "time: boundary pairs (a, a+d) for d around 0, 2^31, 2^32 plus random u32 pairs; "
                "non-trivial = operands differ and second operand non-zero",
    },
}
