"""Regenerates coq/Gen/Consts.v from the literal constants and match tables in /repo (DESIGN 4.7).

Tolerant regexes: an item that cannot be located keeps its committed default and is reported as a
warning (a harmless rename is not a violation; the correspondence check remains the tie for it)."""
import os, re, sys
from common import REPO, COQ, log


def read(rel):
    try:
        with open(os.path.join(REPO, rel), encoding="utf-8", errors="replace") as f:
            return f.read()
    except OSError:
        return ""


def num(s):
    s = s.replace("_", "")
    s = re.sub(r"(u8|u16|u32|u64|usize|i32)$", "", s)
    if s.startswith("0x"):
        return int(s, 16)
    if s.startswith("0b"):
        return int(s, 2)
    return int(s)


NUM = r"(0x[0-9a-fA-F_]+|0b[01_]+|[0-9][0-9_]*)(?:u8|u16|u32|u64|usize)?"


def const(src, name, default, warnings):
    m = re.search(r"const\s+" + name + r"\s*:\s*\w+\s*=\s*" + NUM + r"\s*;", src)
    if not m:
        # simple constant expressions such as `0x80000000 - 1` or `1 << 31`
        m2 = re.search(r"const\s+" + name + r"\s*:\s*\w+\s*=\s*([0-9a-fA-FxX_ \-+<*()]+);", src)
        if m2:
            try:
                expr = re.sub(r"(?<=[0-9a-fA-F])_(?=[0-9a-fA-F])", "", m2.group(1))
                return int(eval(expr, {"__builtins__": {}}, {}))
            except Exception:
                pass
        warnings.append("constant %s not located; kept default %d" % (name, default))
        return default
    return num(m.group(1))


def generate():
    warnings = []
    items = []  # (name, value, comment)

    t = read("rtmp/src/time.rs")
    items.append(("MAX_ADJACENT_VALUE", const(t, "MAX_ADJACENT_VALUE", 2147483647, warnings), "time.rs"))

    a = read("amf0/src/lib.rs")
    for nm, d in [("NUMBER_MARKER", 0), ("BOOLEAN_MARKER", 1), ("STRING_MARKER", 2), ("OBJECT_MARKER", 3),
                  ("NULL_MARKER", 5), ("UNDEFINED_MARKER", 6), ("ECMA_ARRAY_MARKER", 8),
                  ("OBJECT_END_MARKER", 9), ("STRICT_ARRAY_MARKER", 10), ("UTF_8_EMPTY_MARKER", 0)]:
        items.append((nm, const(a, nm, d, warnings), "amf0/lib.rs markers"))

    s = read("rtmp/src/chunk_io/serializer.rs")
    d = read("rtmp/src/chunk_io/deserializer.rs")
    items.append(("SER_INITIAL_MAX_CHUNK_SIZE", const(s, "INITIAL_MAX_CHUNK_SIZE", 128, warnings), "serializer.rs"))
    items.append(("SER_MAX_INITIAL_TIMESTAMP", const(s, "MAX_INITIAL_TIMESTAMP", 16777215, warnings), "serializer.rs"))
    items.append(("DE_INITIAL_MAX_CHUNK_SIZE", const(d, "INITIAL_MAX_CHUNK_SIZE", 128, warnings), "deserializer.rs"))
    items.append(("DE_MAX_INITIAL_TIMESTAMP", const(d, "MAX_INITIAL_TIMESTAMP", 16777215, warnings), "deserializer.rs"))

    # get_csid_for_message_type: match table
    table = {}
    default_csid = 6
    m = re.search(r"fn\s+get_csid_for_message_type[^{]*\{(.*?)\n\}", s, re.S)
    if m:
        body = m.group(1)
        for arm in re.finditer(r"((?:\d+\s*\|\s*)*\d+)\s*=>\s*(\d+)", body):
            for k in arm.group(1).split("|"):
                table[int(k.strip())] = int(arm.group(2))
        dm = re.search(r"_\s*=>\s*(\d+)", body)
        if dm:
            default_csid = int(dm.group(1))
        else:
            warnings.append("get_csid_for_message_type default arm not located")
    else:
        warnings.append("get_csid_for_message_type not located; kept default table")
        table = {1: 2, 2: 2, 3: 2, 4: 2, 5: 2, 6: 2, 18: 3, 19: 3, 9: 4, 8: 5}

    # message type ids (get_message_type_id)
    mm = read("rtmp/src/messages/mod.rs")
    tids = {}
    defaults = {"Abort": 2, "Acknowledgement": 3, "Amf0Command": 20, "Amf0Data": 18, "AudioData": 8,
                "SetChunkSize": 1, "SetPeerBandwidth": 6, "UserControl": 4, "VideoData": 9,
                "WindowAcknowledgement": 5}
    g = re.search(r"fn\s+get_message_type_id.*?\n    \}", mm, re.S)
    body = g.group(0) if g else ""
    for nm, dflt in defaults.items():
        m2 = re.search(r"RtmpMessage::" + nm + r"\b[^=]*?=>\s*" + NUM, body, re.S)
        if m2:
            tids[nm] = num(m2.group(1))
        else:
            warnings.append("type id of %s not located; kept default %d" % (nm, dflt))
            tids[nm] = dflt

    # user control event codes (serialize and deserialize tables), bandwidth limit codes, SetChunkSize bound
    uc = read("rtmp/src/messages/types/user_control.rs")
    uc_names = {"StreamBegin": 0, "StreamEof": 1, "StreamDry": 2, "SetBufferLength": 3, "StreamIsRecorded": 4,
                "PingRequest": 6, "PingResponse": 7, "BufferEmpty": 31, "BufferReady": 32}
    ser_part = uc.split("pub fn deserialize")[0]
    de_part = uc.split("pub fn deserialize")[1].split("let mut stream_id")[0] if "pub fn deserialize" in uc else ""
    for nm, dflt in uc_names.items():
        m2 = re.search(r"UserControlEventType::" + nm + r"\s*=>\s*\{?\s*write_\w+\(\s*&mut\s+\w+\s*,\s*" + NUM, ser_part)
        if m2:
            items.append(("UC_" + nm, num(m2.group(1)), "user_control.rs serialize"))
        else:
            warnings.append("user control code (serialize) of %s not located" % nm)
            items.append(("UC_" + nm, dflt, "user_control.rs serialize (default)"))
        m3 = re.search(NUM + r"\s*=>\s*UserControlEventType::" + nm + r"\b", de_part)
        if m3:
            items.append(("UCD_" + nm, num(m3.group(1)), "user_control.rs deserialize"))
        else:
            warnings.append("user control code (deserialize) of %s not located" % nm)
            items.append(("UCD_" + nm, dflt, "user_control.rs deserialize (default)"))
    bw = read("rtmp/src/messages/types/set_peer_bandwidth.rs")
    for nm, dflt in (("Hard", 0), ("Soft", 1), ("Dynamic", 2)):
        m2 = re.search(r"PeerBandwidthLimitType::" + nm + r"\s*=>\s*" + NUM, bw)
        items.append(("LIMIT_" + nm, num(m2.group(1)) if m2 else dflt, "set_peer_bandwidth.rs serialize"))
        if not m2:
            warnings.append("limit code (serialize) of %s not located" % nm)
        m3 = re.search(NUM + r"\s*=>\s*PeerBandwidthLimitType::" + nm + r"\b", bw)
        items.append(("LIMITD_" + nm, num(m3.group(1)) if m3 else dflt, "set_peer_bandwidth.rs deserialize"))
        if not m3:
            warnings.append("limit code (deserialize) of %s not located" % nm)
    scs = read("rtmp/src/messages/types/set_chunk_size.rs")
    items.append(("MAX_CHUNK_SIZE_MSG", const(scs, "MAX_SIZE", 2147483647, warnings), "set_chunk_size.rs MAX_SIZE"))

    # handshake constants
    hsrc = read("rtmp/src/handshake/mod.rs")
    items.append(("HS_PACKET_SIZE", const(hsrc, "RTMP_PACKET_SIZE", 1536, warnings), "handshake RTMP_PACKET_SIZE"))
    def re_int(pat, default, what):
        m2 = re.search(pat, hsrc, re.S)
        if not m2:
            warnings.append("handshake %s not located; kept default %d" % (what, default))
            return default
        return num(m2.group(1))
    items.append(("HS_OFFSET_MOD", re_int(r"fn\s+get_client_digest_offset.*?%\s*" + NUM, 728, "client offset modulus"), "get_client_digest_offset"))
    items.append(("HS_CLIENT_OFFSET_BASE", re_int(r"fn\s+get_client_digest_offset.*?%\s*" + NUM + r"\s*\)\s*\+\s*" + NUM.replace("(", "(?:", 1), 12, "client offset base")
                  if False else re_int(r"fn\s+get_client_digest_offset.*?%\s*[0-9_]+\s*\)\s*\+\s*" + NUM, 12, "client offset base"), "get_client_digest_offset"))
    items.append(("HS_SERVER_OFFSET_MOD", re_int(r"fn\s+get_server_digest_offset.*?%\s*" + NUM, 728, "server offset modulus"), "get_server_digest_offset"))
    items.append(("HS_SERVER_OFFSET_BASE", re_int(r"fn\s+get_server_digest_offset.*?%\s*[0-9_]+\s*\)\s*\+\s*" + NUM, 776, "server offset base"), "get_server_digest_offset"))
    items.append(("HS_VERSION_BYTE", re_int(r"let\s+mut\s+output\s*=\s*vec!\[\s*" + NUM, 3, "version byte"), "generate_outbound_p0_and_p1"))
    crud = re.search(r"const\s+RANDOM_CRUD[^=]*=\s*\[(.*?)\];", hsrc, re.S)
    crud_vals = [num(x) for x in re.findall(NUM, crud.group(1))] if crud else None
    if not crud_vals or len(crud_vals) != 32:
        warnings.append("RANDOM_CRUD not located; kept default")
        crud_vals = [0xf0, 0xee, 0xc2, 0x4a, 0x80, 0x68, 0xbe, 0xe8, 0x2e, 0x00, 0xd0, 0xd1, 0x02, 0x9e, 0x7e, 0x57, 0x6e, 0xec, 0x5d, 0x2d,
                     0x29, 0x80, 0x6f, 0xab, 0x93, 0xb8, 0xe6, 0x36, 0xcf, 0xeb, 0x31, 0xae]

    lines = ["(* GENERATED by lib/gen_consts.py from /repo sources - do not edit. *)",
             "From Coq Require Import NArith List.", "Import ListNotations.", "Open Scope N_scope.", ""]
    for nm, v, c in items:
        lines.append("Definition %s : N := %d.  (* %s *)" % (nm, v, c))
    lines.append("Definition HS_RANDOM_CRUD : list N := [%s]." % "; ".join(str(v) for v in crud_vals))
    lines.append("")
    lines.append("(* get_csid_for_message_type (serializer.rs) *)")
    lines.append("Definition csid_table : list (N * N) := [%s]." %
                 "; ".join("(%d, %d)" % (k, table[k]) for k in sorted(table)))
    lines.append("Definition csid_default : N := %d." % default_csid)
    lines.append("")
    lines.append("(* RtmpMessage::get_message_type_id (messages/mod.rs) *)")
    for nm in sorted(tids):
        lines.append("Definition TID_%s : N := %d." % (nm, tids[nm]))
    text = "\n".join(lines) + "\n"

    path = os.path.join(COQ, "Gen", "Consts.v")
    old = open(path).read() if os.path.exists(path) else None
    changed = old != text
    if changed:
        with open(path, "w") as f:
            f.write(text)
    return {"changed": changed, "warnings": warnings, "path": path}


if __name__ == "__main__":
    r = generate()
    for w in r["warnings"]:
        log("gen_consts warning:", w)
    print("Consts.v", "rewritten" if r["changed"] else "unchanged")
